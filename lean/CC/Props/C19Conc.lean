import CC.Model.Conc
/-! # C19 / C16 — one generator shared by many threads: what the lock discipline buys, for every schedule

Model: `CC.Model.Conc` (threads × lock events × the generator's state, a draw being a
read‑modify‑write). For **any** number of threads, **any** sequences of calls whose sections follow
the discipline `(acq (load store)* rel)*`, **any** draws and **any** schedule:

* `run_inv` — the invariant (`Inv`) holds in every reachable configuration;
* `loaded_is_holder`, `at_most_one_loaded` — mutual exclusion at the level of the generator's state;
* `draws_disjoint` — the blocks of tokens handed out, to whatever threads, never overlap
  (the freshness guarantees of C16 hold across threads);
* `log_contig`, `counter_exact` — no update of the generator is lost: the blocks are consecutive
  and the final state is the initial one advanced by the sum of all draws, i.e. exactly what *some
  serial execution* of the same sections produces (each draw of a section starts where the previous
  draw of *that same section* ended, nobody else's block in between: `loaded_is_holder`);
* `progress`, `step_consumes` — no deadlock, and every step consumes an event: every call returns.

`snapshot_breaks` and `unlocked_breaks` are the converse witnesses: a thread that reads the state
in one section and writes it back in another (the "work on a snapshot" optimisation), or that
touches the generator without the guard, hands the same tokens to two threads under a concrete
schedule. The tie to the code: the `acq / rel` structure of every API function is regenerated from
the source (`CC.Generated.lockTable`), `table_sections_disciplined` shows every function of that
table to expand to disciplined sections whatever it draws, and the number of places that construct
or duplicate a generator is part of the same table (`rngSites`). -/

namespace CC.Conc

def phase (s : State) (i : Nat) (th : Thread) : Phase :=
  match th.reg with
  | some _ => .loaded
  | none => if s.holder = some i then .held else .out

structure Inv (n0 : Nat) (s : State) : Prop where
  disc : ∀ i th, s.threads[i]? = some th → disc (phase s i th) th.evs = true
  reg : ∀ i th a, s.threads[i]? = some th → th.reg = some a → s.holder = some i ∧ a = s.rng
  holder : ∀ i, s.holder = some i → i < s.threads.length
  contig : Contig n0 s.log
  top : blocksEnd n0 s.log = s.rng

/-! ## sections built from the table are disciplined -/

theorem disc_draws (ks : List Nat) (rest : List Ev) :
    disc .held (ks.flatMap (fun k => [.load, .store k]) ++ rest) = disc .held rest := by
  induction ks with
  | nil => simp
  | cons k ks ih => simp [List.flatMap_cons, disc, ih]

theorem disc_section (ks : List Nat) (rest : List Ev) :
    disc .out (section_ ks ++ rest) = disc .out rest := by
  unfold section_
  simp only [List.cons_append, List.append_assoc, disc]
  rw [disc_draws]
  simp [disc]

/-- any thread made of whole sections, whatever each of them draws, follows the discipline -/
theorem threadOf_disc (sections : List (List Nat)) : disc .out (threadOf sections) = true := by
  induction sections with
  | nil => simp [threadOf, disc]
  | cons ks rest ih =>
    unfold threadOf at ih ⊢
    rw [List.flatMap_cons, disc_section]
    exact ih

/-! ## the invariant -/

theorem init_inv (n0 : Nat) (threads : List (List Ev)) (h : ∀ t ∈ threads, disc .out t = true) :
    Inv n0 (init n0 threads) := by
  refine ⟨?_, ?_, ?_, trivial, rfl⟩
  · intro i th hi
    simp only [init, List.getElem?_map, Option.map_eq_some_iff] at hi
    obtain ⟨e, he, rfl⟩ := hi
    simp only [phase, init]
    simpa using h e (List.mem_of_getElem? he)
  · intro i th a hi hr
    simp only [init, List.getElem?_map, Option.map_eq_some_iff] at hi
    obtain ⟨e, _, rfl⟩ := hi
    simp at hr
  · intro i hi; simp [init] at hi

theorem set_cases {l : List Thread} {i j : Nat} {x t : Thread} (hlt : i < l.length)
    (h : (l.set i x)[j]? = some t) : (j = i ∧ t = x) ∨ (j ≠ i ∧ l[j]? = some t) := by
  by_cases hji : j = i
  · subst hji
    rw [List.getElem?_set_self hlt] at h
    exact Or.inl ⟨rfl, (Option.some.inj h).symm⟩
  · rw [List.getElem?_set_ne (Ne.symm hji)] at h
    exact Or.inr ⟨hji, h⟩

/-- what the discipline says about the thread that moves -/
theorem head_phase {s : State} {i : Nat} {e : Ev} {rest : List Ev} {reg : Option Nat}
    (hd : disc (phase s i ⟨e :: rest, reg⟩) (e :: rest) = true) :
    (e = .acq ∧ reg = none ∧ s.holder ≠ some i ∧ disc .held rest = true) ∨
    (e = .rel ∧ reg = none ∧ s.holder = some i ∧ disc .out rest = true) ∨
    (e = .load ∧ reg = none ∧ s.holder = some i ∧ disc .loaded rest = true) ∨
    (∃ k a, e = .store k ∧ reg = some a ∧ disc .held rest = true) := by
  unfold phase at hd
  cases reg with
  | some a =>
    cases e <;> simp [disc] at hd
    rename_i k
    exact Or.inr (Or.inr (Or.inr ⟨k, a, rfl, rfl, hd⟩))
  | none =>
    by_cases hh : s.holder = some i
    · simp only [hh, if_true] at hd
      cases e <;> simp [disc] at hd
      · exact Or.inr (Or.inl ⟨rfl, rfl, hh, hd⟩)
      · exact Or.inr (Or.inr (Or.inl ⟨rfl, rfl, hh, hd⟩))
    · simp only [hh, if_false] at hd
      cases e <;> simp [disc] at hd
      exact Or.inl ⟨rfl, rfl, hh, hd⟩

theorem step_inv (n0 : Nat) (s s' : State) (i : Nat) (hinv : Inv n0 s) (hs : step s i = some s') :
    Inv n0 s' := by
  unfold step at hs
  cases hth : s.threads[i]? with
  | none => simp [hth] at hs
  | some th =>
    have hlt : i < s.threads.length := (List.getElem?_eq_some_iff.1 hth).1
    obtain ⟨evs, reg⟩ := th
    cases evs with
    | nil => simp [hth] at hs
    | cons e rest =>
      have hd := hinv.disc i _ hth
      rcases head_phase hd with ⟨rfl, rfl, hne, hr⟩ | ⟨rfl, rfl, hh, hr⟩ | ⟨rfl, rfl, hh, hr⟩ | ⟨k, a, rfl, rfl, hr⟩
      · -- acq
        simp only [hth] at hs
        split at hs
        · rename_i hnone
          cases hs
          refine ⟨?_, ?_, ?_, hinv.contig, hinv.top⟩
          · intro j t hj
            rcases set_cases hlt hj with ⟨rfl, rfl⟩ | ⟨hji, hj'⟩
            · simpa [phase] using hr
            · have := hinv.disc j t hj'
              have h1 : ¬ ((some i : Option Nat) = some j) := fun h => hji (Option.some.inj h).symm
              simp only [phase, hnone] at this ⊢
              cases hreg : t.reg with
              | some a => simpa [hreg] using this
              | none => simpa [hreg, h1] using this
          · intro j t a hj ha
            rcases set_cases hlt hj with ⟨rfl, rfl⟩ | ⟨hji, hj'⟩
            · simp at ha
            · have := (hinv.reg j t a hj' ha).1
              rw [hnone] at this; cases this
          · intro j hj
            simp only [Option.some.injEq] at hj; subst hj
            simpa using hlt
        · cases hs
      · -- rel
        simp only [hth, hh, if_true] at hs
        cases hs
        refine ⟨?_, ?_, ?_, hinv.contig, hinv.top⟩
        · intro j t hj
          rcases set_cases hlt hj with ⟨rfl, rfl⟩ | ⟨hji, hj'⟩
          · simpa [phase] using hr
          · have := hinv.disc j t hj'
            have h1 : ¬ ((some i : Option Nat) = some j) := fun h => hji (Option.some.inj h).symm
            simp only [phase, hh] at this ⊢
            cases hreg : t.reg with
            | some a => simpa [hreg] using this
            | none => simpa [hreg, h1] using this
        · intro j t a hj ha
          rcases set_cases hlt hj with ⟨rfl, rfl⟩ | ⟨hji, hj'⟩
          · simp at ha
          · have := (hinv.reg j t a hj' ha).1
            rw [hh] at this
            exact absurd (Option.some.inj this).symm hji
        · intro j hj; cases hj
      · -- load
        simp only [hth] at hs
        cases hs
        refine ⟨?_, ?_, ?_, hinv.contig, hinv.top⟩
        · intro j t hj
          rcases set_cases hlt hj with ⟨rfl, rfl⟩ | ⟨hji, hj'⟩
          · simpa [phase] using hr
          · simpa [phase] using hinv.disc j t hj'
        · intro j t a hj ha
          rcases set_cases hlt hj with ⟨rfl, rfl⟩ | ⟨hji, hj'⟩
          · simp only [Option.some.injEq] at ha
            exact ⟨hh, ha.symm⟩
          · exact hinv.reg j t a hj' ha
        · intro j hj
          simpa using hinv.holder j hj
      · -- store
        simp only [hth] at hs
        cases hs
        obtain ⟨hhold, harng⟩ := hinv.reg i _ a hth rfl
        refine ⟨?_, ?_, ?_, ?_, ?_⟩
        · intro j t hj
          rcases set_cases hlt hj with ⟨rfl, rfl⟩ | ⟨hji, hj'⟩
          · simpa [phase, hhold] using hr
          · simpa [phase] using hinv.disc j t hj'
        · intro j t b hj hb
          rcases set_cases hlt hj with ⟨rfl, rfl⟩ | ⟨hji, hj'⟩
          · simp at hb
          · have := (hinv.reg j t b hj' hb).1
            rw [hhold] at this
            exact absurd (Option.some.inj this).symm hji
        · intro j hj
          simpa using hinv.holder j hj
        · exact ⟨by rw [hinv.top]; exact harng, hinv.contig⟩
        · rfl

/-- the invariant holds along every schedule -/
theorem run_inv (n0 : Nat) (sched : List Nat) (s : State) (hinv : Inv n0 s) : Inv n0 (run s sched) := by
  induction sched generalizing s with
  | nil => exact hinv
  | cons i rest ih =>
    unfold run
    cases hs : step s i with
    | none => exact ih s hinv
    | some s' => exact ih s' (step_inv n0 s s' i hinv hs)

/-! ## consequences -/

theorem contig_bounds (n0 : Nat) : ∀ (log : List Entry), Contig n0 log →
    n0 ≤ blocksEnd n0 log ∧ ∀ b ∈ log, n0 ≤ b.start ∧ b.start + b.len ≤ blocksEnd n0 log
  | [], _ => ⟨Nat.le_refl _, fun b hb => by cases hb⟩
  | e :: rest, h => by
    obtain ⟨he, hrest⟩ := h
    obtain ⟨h0, hall⟩ := contig_bounds n0 rest hrest
    refine ⟨?_, ?_⟩
    · simp only [blocksEnd]; omega
    · intro b hb
      simp only [blocksEnd]
      rcases List.mem_cons.1 hb with rfl | hb
      · omega
      · have := hall b hb
        omega

/-- consecutive blocks never overlap -/
theorem contig_disjoint (n0 : Nat) : ∀ (log : List Entry), Contig n0 log →
    log.Pairwise (fun a b => ¬ overlap a b)
  | [], _ => List.Pairwise.nil
  | e :: rest, h => by
    obtain ⟨he, hrest⟩ := h
    refine List.Pairwise.cons ?_ (contig_disjoint n0 rest hrest)
    intro b hb ⟨t, h1, _, _, h4⟩
    have := (contig_bounds n0 rest hrest).2 b hb
    omega

theorem contig_total (n0 : Nat) : ∀ (log : List Entry), Contig n0 log → blocksEnd n0 log = n0 + total log
  | [], _ => rfl
  | e :: rest, h => by
    obtain ⟨he, hrest⟩ := h
    have := contig_total n0 rest hrest
    simp only [blocksEnd, total]; omega

end CC.Conc

namespace CC.Props.C19Conc
open CC.Conc CC.Sched CC.Generated

variable (n0 : Nat) (threads : List (List Ev)) (sched : List Nat)

/-- **freshness across threads** (C16 ∧ C19): for every schedule of any disciplined threads, the
blocks of tokens handed out never overlap — no two draws, by whatever threads, share a token -/
theorem draws_disjoint (h : ∀ t ∈ threads, disc .out t = true) :
    (run (init n0 threads) sched).log.Pairwise (fun a b => ¬ overlap a b) :=
  contig_disjoint n0 _ (run_inv n0 sched _ (init_inv n0 threads h)).contig

/-- the blocks are consecutive: every draw received the tokens that start exactly where the
previous draw (of any thread) ended — what a serial execution of the same draws hands out -/
theorem log_contig (h : ∀ t ∈ threads, disc .out t = true) :
    Contig n0 (run (init n0 threads) sched).log :=
  (run_inv n0 sched _ (init_inv n0 threads h)).contig

/-- **no lost update**: whatever the schedule, the generator ends advanced by exactly the sum of
all draws made so far -/
theorem counter_exact (h : ∀ t ∈ threads, disc .out t = true) :
    (run (init n0 threads) sched).rng = n0 + total (run (init n0 threads) sched).log := by
  have hinv := run_inv n0 sched _ (init_inv n0 threads h)
  rw [← hinv.top]; exact contig_total n0 _ hinv.contig

/-- **mutual exclusion on the generator's state**: a thread between its `load` and its `store`
holds the mutex, and its private copy is the current state (nobody advanced it meanwhile) -/
theorem loaded_is_holder (h : ∀ t ∈ threads, disc .out t = true) (i : Nat) (th : Thread) (a : Nat)
    (hi : (run (init n0 threads) sched).threads[i]? = some th) (ha : th.reg = some a) :
    (run (init n0 threads) sched).holder = some i ∧ a = (run (init n0 threads) sched).rng :=
  (run_inv n0 sched _ (init_inv n0 threads h)).reg i th a hi ha

theorem at_most_one_loaded (h : ∀ t ∈ threads, disc .out t = true) (i j : Nat) (ti tj : Thread)
    (hi : (run (init n0 threads) sched).threads[i]? = some ti) (hj : (run (init n0 threads) sched).threads[j]? = some tj)
    (hri : ti.reg.isSome) (hrj : tj.reg.isSome) : i = j := by
  obtain ⟨a, ha⟩ := Option.isSome_iff_exists.1 hri
  obtain ⟨b, hb⟩ := Option.isSome_iff_exists.1 hrj
  have h1 := (loaded_is_holder n0 threads sched h i ti a hi ha).1
  have h2 := (loaded_is_holder n0 threads sched h j tj b hj hb).1
  rw [h1] at h2; exact Option.some.inj h2

/-- **no deadlock**: in every reachable configuration, while some thread still has events, some
thread can move -/
theorem progress (h : ∀ t ∈ threads, disc .out t = true)
    (hwork : ∃ (i : Nat) (th : Thread), (run (init n0 threads) sched).threads[i]? = some th ∧ th.evs ≠ []) :
    ∃ i s', step (run (init n0 threads) sched) i = some s' := by
  have hinv := run_inv n0 sched _ (init_inv n0 threads h)
  generalize run (init n0 threads) sched = s at hinv hwork
  cases hh : s.holder with
  | some hdr =>
    have hlt := hinv.holder hdr hh
    have hget : s.threads[hdr]? = some s.threads[hdr] := by simp [hlt]
    have hd := hinv.disc hdr _ hget
    refine ⟨hdr, ?_⟩
    unfold step
    rw [hget]
    rcases hth : s.threads[hdr] with ⟨evs, reg⟩
    rw [hth] at hd
    cases evs with
    | nil =>
      cases reg with
      | some a => simp [phase, disc] at hd
      | none => simp [phase, hh, disc] at hd
    | cons e rest =>
      cases reg with
      | some a =>
        cases e <;> simp [phase, disc] at hd
        exact ⟨_, rfl⟩
      | none =>
        cases e <;> simp [phase, hh, disc] at hd
        · exact ⟨_, if_pos hh⟩
        · exact ⟨_, rfl⟩
  | none =>
    obtain ⟨i, th, hi, hne⟩ := hwork
    have hd := hinv.disc i th hi
    refine ⟨i, ?_⟩
    unfold step
    rw [hi]
    obtain ⟨evs, reg⟩ := th
    cases evs with
    | nil => exact absurd rfl hne
    | cons e rest =>
      cases reg with
      | some a =>
        have := (hinv.reg i _ a hi rfl).1
        rw [hh] at this; cases this
      | none =>
        cases e <;> simp [phase, hh, disc] at hd
        exact ⟨_, if_pos hh⟩

def remaining (s : Conc.State) : Nat := (s.threads.map (fun t => t.evs.length)).sum

theorem sum_set (l : List Thread) (i : Nat) (e : Ev) (rest : List Ev) (reg reg' : Option Nat)
    (h : l[i]? = some ⟨e :: rest, reg⟩) :
    ((l.set i ⟨rest, reg'⟩).map (fun t => t.evs.length)).sum + 1 = (l.map (fun t => t.evs.length)).sum := by
  induction l generalizing i with
  | nil => simp at h
  | cons x xs ih =>
    cases i with
    | zero =>
      simp only [List.getElem?_cons_zero, Option.some.injEq] at h
      subst h
      simp only [List.set_cons_zero, List.map_cons, List.sum_cons, List.length_cons]
      omega
    | succ j =>
      simp only [List.getElem?_cons_succ] at h
      have := ih j h
      simp only [List.set_cons_succ, List.map_cons, List.sum_cons]
      omega

/-- **every call returns**: each step consumes one event of one thread, so every schedule ends
after `remaining` effective steps (with `progress`: with every call completed) -/
theorem step_consumes (s s' : Conc.State) (i : Nat) (hs : step s i = some s') : remaining s' + 1 = remaining s := by
  unfold step at hs
  cases hth : s.threads[i]? with
  | none => simp [hth] at hs
  | some th =>
    obtain ⟨evs, reg⟩ := th
    cases evs with
    | nil => simp [hth] at hs
    | cons e rest =>
      cases e with
      | acq =>
        simp only [hth] at hs
        split at hs
        · cases hs; exact sum_set _ i _ rest reg reg hth
        · cases hs
      | rel =>
        simp only [hth] at hs
        split at hs
        · cases hs; exact sum_set _ i _ rest reg reg hth
        · cases hs
      | load =>
        simp only [hth] at hs
        cases hs; exact sum_set _ i _ rest reg _ hth
      | store k =>
        simp only [hth] at hs
        cases reg with
        | none => cases hs
        | some a => cases hs; exact sum_set _ i _ rest _ none hth

/-! ## the API functions of the regenerated table -/

/-- sections of one API function according to the lock table: one per acquisition, each with the
draws given for it -/
def callEvents (evs : List LockEv) (draws : List (List Nat)) : List Ev :=
  threadOf (((evs.filter (· == .acq)).zipIdx).map (fun p => (draws[p.2]?).getD []))

/-- whatever the functions of the table draw, a thread calling any sequence of them is
disciplined (given that the table is well nested, `C19.table_wellNested`: a function's guard
lifetimes are whole `acq … rel` sections) -/
theorem table_sections_disciplined (calls : List (List LockEv × List (List Nat))) :
    disc .out (calls.flatMap (fun c => callEvents c.1 c.2)) = true := by
  have : calls.flatMap (fun c => callEvents c.1 c.2) =
      threadOf (calls.flatMap (fun c => ((c.1.filter (· == .acq)).zipIdx).map (fun p => (c.2[p.2]?).getD []))) := by
    simp only [callEvents, threadOf, List.flatMap_assoc]
  rw [this]; exact threadOf_disc _

/-- the generator is one object: the only places of the library that construct a generator are
constructors (functions without receiver returning an instance / a generator), and nothing
duplicates one (`clone`, `thread_local!`). Regenerated from the source on every run. An operation
that builds or copies a generator of its own is outside the discipline above (its draws are not
read‑modify‑writes of the shared state) — `snapshot_breaks` is what then happens. -/
theorem generator_sites_are_constructors : locksAvailable = true →
    rngSites.all (fun p => p.2.2) = true := by decide

/-- **the scheduling model's one mutex is all there is**: the only shared-state / synchronisation
object the library declares (fields, statics, thread-locals, atomics, cells — regenerated from the
source on every run, tests excluded) is the generator behind its mutex. A second lock, a cache
behind a lock, a global, a lazily initialised static are outside the model above (lock-order
inversions, values shared between instances or threads): with one of them the theorems of this file
no longer describe the code. -/
theorem generator_mutex_is_the_only_shared_state : locksAvailable = true →
    syncObjects.map (·.2) = ["Mutex<CsRng>"] := by decide

/-! ## without the discipline -/

/-- a thread that reads the generator in one critical section and writes it back in a later one
(every lock event perfectly nested, every access under the guard) -/
def snapshotThread : List Ev := [.acq, .load, .rel, .acq, .store 1, .rel]

/-- … hands the same token to two threads under this schedule -/
theorem snapshot_breaks :
    let s := run (init 100 [snapshotThread, snapshotThread]) [0, 0, 0, 1, 1, 1, 0, 0, 0, 1, 1, 1]
    s.log = [⟨1, 100, 1⟩, ⟨0, 100, 1⟩] ∧ s.rng = 101 := by decide

/-- so does touching the generator without the guard -/
theorem unlocked_breaks :
    (run (init 7 [[.load, .store 2], [.load, .store 2]]) [0, 1, 0, 1]).log = [⟨1, 7, 2⟩, ⟨0, 7, 2⟩] := by decide

/-- the hypothesis of the theorems really is what separates the two: the snapshot thread is not
disciplined although its lock events are perfectly nested -/
example : disc .out snapshotThread = false := by decide

/-- non-vacuity: two threads, one running `encrypt` (two sections) then `decaps`, the other
`header::generate`, are disciplined, and a concrete interleaving hands out consecutive blocks -/
example : ∀ t ∈ [threadOf [[1, 3], [1], [2]], threadOf [[1, 2], [1]]], disc .out t = true := by decide

example : (run (init 0 [threadOf [[1, 3], [1]], threadOf [[2]]]) [0, 0, 1, 0, 0, 0, 0, 1, 1, 1, 1, 0, 0, 0, 0]).log
    = [⟨0, 6, 1⟩, ⟨1, 4, 2⟩, ⟨0, 1, 3⟩, ⟨0, 0, 1⟩] := by decide

end CC.Props.C19Conc
