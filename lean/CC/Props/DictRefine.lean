import CC.Model.Dict
import CC.Lemmas.Look
import CC.Lemmas.StructWF
/-! # `Dict` refines the ordered association list

`Inv`: the hash map sends a key to a position exactly when the entry at that position carries
that key, and both structures have the same size. It holds of `Dict::new` and is preserved by
every operation; under it no operation indexes out of bounds (no panic) and each one is the list
operation used by `CC.Model.Structure` (`ainsert`, `aerase`, `areplace`, the renaming `map`,
`List.lookup`), so every theorem about hierarchies stated on lists is a theorem about the
two-structure representation of the code. -/

namespace CC.DictRep
open CC.Look
variable {V : Type}

structure Inv (d : DictRep V) : Prop where
  fwd : ∀ k i, d.indices k = some i → ∃ v, d.entries[i]? = some (k, v)
  bwd : ∀ i k v, d.entries[i]? = some (k, v) → d.indices k = some i
  size : d.nIdx = d.entries.length

theorem inv_empty : (empty : DictRep V).Inv :=
  ⟨fun _ _ h => by simp [empty] at h, fun _ _ _ h => by simp [empty] at h, rfl⟩

/-- positions are below the size -/
theorem Inv.lt {d : DictRep V} (h : d.Inv) {k : String} {i : Nat} (hi : d.indices k = some i) :
    i < d.entries.length := by
  obtain ⟨v, hv⟩ := h.fwd k i hi
  exact (List.getElem?_eq_some_iff.mp hv).1

/-- two positions with the same key are the same position -/
theorem Inv.uniq {d : DictRep V} (h : d.Inv) {i j : Nat} {k : String} {v w : V}
    (hi : d.entries[i]? = some (k, v)) (hj : d.entries[j]? = some (k, w)) : i = j := by
  have a := h.bwd i k v hi
  have b := h.bwd j k w hj
  rw [a] at b; exact Option.some.inj b

/-- `get` is `List.lookup` on the entries -/
theorem get_eq_lookup {d : DictRep V} (h : d.Inv) (k : String) : d.get k = d.entries.lookup k := by
  unfold get
  cases hl : d.entries.lookup k with
  | none =>
    cases hi : d.indices k with
    | none => rfl
    | some i =>
      obtain ⟨v, hv⟩ := h.fwd k i hi
      have : k ∈ d.entries.map (·.1) := List.mem_map.mpr ⟨(k, v), List.mem_of_getElem? hv, rfl⟩
      exact absurd this (lookup_eq_none_iff.mp hl)
  | some v =>
    obtain ⟨i, hi⟩ := List.mem_iff_getElem?.mp (lookup_mem hl)
    rw [h.bwd i k v hi]; simp [hi]

theorem containsKey_eq {d : DictRep V} (h : d.Inv) (k : String) :
    d.containsKey k = (d.entries.lookup k).isSome := by
  have := get_eq_lookup h k
  unfold get at this; unfold containsKey
  cases hi : d.indices k with
  | none => rw [hi] at this; simp [← this]
  | some i =>
    obtain ⟨v, hv⟩ := h.fwd k i hi
    rw [hi] at this; simp [hv] at this; simp [← this]

theorem len_eq {d : DictRep V} (h : d.Inv) : d.len = d.entries.length := h.size

/-- the keys of the entries are pairwise distinct -/
theorem Inv.nodup {d : DictRep V} (h : d.Inv) : (d.entries.map (·.1)).Nodup := by
  unfold List.Nodup
  rw [List.pairwise_iff_getElem]
  intro i j hi hj hij heq
  simp only [List.length_map] at hi hj
  simp only [List.getElem_map] at heq
  have ei : d.entries[i]? = some (d.entries[i].1, d.entries[i].2) := by simp [List.getElem?_eq_getElem hi]
  have ej : d.entries[j]? = some (d.entries[j].1, d.entries[j].2) := by simp [List.getElem?_eq_getElem hj]
  rw [heq] at ei
  have := h.uniq ei ej
  omega

/-! ## overwrite at the position of a key -/

theorem set_eq_map {l : List (String × V)} {i : Nat} {k : String} {v : V} (x : String × V)
    (g : String × V → String × V)
    (hi : l[i]? = some (k, v)) (hx : g (k, v) = x)
    (hu : ∀ j w, l[j]? = some (k, w) → j = i)
    (hg : ∀ p, p.1 ≠ k → g p = p) :
    l.set i x = l.map g := by
  apply List.ext_getElem?
  intro j
  by_cases hji : j = i
  · subst hji
    have hlt := (List.getElem?_eq_some_iff.mp hi).1
    have hget : l[j] = (k, v) := (List.getElem?_eq_some_iff.mp hi).2
    simp [hlt, hget, hx]
  · rw [List.getElem?_set_ne (Ne.symm hji), List.getElem?_map]
    cases hj : l[j]? with
    | none => rfl
    | some p =>
      have : p.1 ≠ k := by
        intro hp
        have : l[j]? = some (k, p.2) := by rw [hj, ← hp]
        exact hji (hu j p.2 this)
      simp [hg p this]

/-- `insert` never panics, keeps the invariant, and is `ainsert` on the entries; it returns the
previous value -/
theorem insert_refines {d : DictRep V} (h : d.Inv) (k : String) (v : V) :
    ∃ d', d.insert k v = some (d', d.entries.lookup k) ∧ d'.Inv ∧ d'.entries = ainsert d.entries k v := by
  have hget := get_eq_lookup h k
  unfold get at hget
  unfold insert
  cases hi : d.indices k with
  | some i =>
    obtain ⟨w, hw⟩ := h.fwd k i hi
    rw [hi] at hget; simp only [hw, Option.map_some] at hget
    have hlt := (List.getElem?_eq_some_iff.mp hw).1
    have hset : d.entries.set i (k, v) = areplace d.entries k v := by
      unfold areplace
      refine set_eq_map (k, v) _ hw (by simp) (fun j w' hj => h.uniq hj hw) ?_
      intro p hp; simp [hp]
    refine ⟨{ d with entries := d.entries.set i (k, v) }, by simp only [hw, ← hget], ⟨?_, ?_, ?_⟩, ?_⟩
    · intro k' j hj
      obtain ⟨v', hv'⟩ := h.fwd k' j hj
      by_cases hji : j = i
      · subst hji
        have : k' = k := by rw [hw] at hv'; exact (Prod.mk.inj (Option.some.inj hv')).1.symm
        subst this
        exact ⟨v, by simp [hlt]⟩
      · exact ⟨v', by simp only; rw [List.getElem?_set_ne (Ne.symm hji)]; exact hv'⟩
    · intro j k' v' hj
      simp only at hj
      by_cases hji : j = i
      · subst hji
        simp [hlt] at hj
        rw [← hj.1]; exact hi
      · rw [List.getElem?_set_ne (Ne.symm hji)] at hj
        exact h.bwd j k' v' hj
    · simp [h.size]
    · simp only [ainsert, ← hget, Option.isSome_some, if_true, hset]
  | none =>
    rw [hi] at hget
    have hnone : d.entries.lookup k = none := hget.symm
    refine ⟨_, by simp only [hnone]; rfl, ⟨?_, ?_, ?_⟩, ?_⟩
    · intro k' j hj
      simp only at hj
      by_cases hk : k' = k
      · subst hk
        simp at hj; subst hj
        exact ⟨v, by simp⟩
      · simp [hk] at hj
        obtain ⟨v', hv'⟩ := h.fwd k' j hj
        have hlt := (List.getElem?_eq_some_iff.mp hv').1
        exact ⟨v', by simp [List.getElem?_append_left hlt, hv']⟩
    · intro j k' v' hj
      simp only at hj ⊢
      by_cases hlt : j < d.entries.length
      · rw [List.getElem?_append_left hlt] at hj
        have hk : k' ≠ k := by
          intro hk; subst hk
          have := h.bwd j k' v' hj
          rw [hi] at this; cases this
        simp [hk]; exact h.bwd j k' v' hj
      · have hge : d.entries.length ≤ j := by omega
        rw [List.getElem?_append_right hge] at hj
        have : j - d.entries.length = 0 := by
          cases hjd : j - d.entries.length with
          | zero => rfl
          | succ n => rw [hjd] at hj; simp at hj
        rw [this] at hj; simp at hj
        obtain ⟨rfl, rfl⟩ := hj
        simp; omega
    · simp [h.size]
    · simp [ainsert, hnone]

/-! ## remove -/

theorem eraseIdx_eq_filter (l : List (String × V)) (i : Nat) (k : String) (v : V)
    (hi : l[i]? = some (k, v)) (hu : ∀ j w, l[j]? = some (k, w) → j = i) :
    l.eraseIdx i = aerase l k := by
  induction l generalizing i with
  | nil => simp at hi
  | cons p t ih =>
    cases i with
    | zero =>
      simp at hi; subst hi
      have : ∀ q ∈ t, q.1 ≠ k := by
        intro q hq hk
        obtain ⟨j, hj⟩ := List.mem_iff_getElem?.mp hq
        have := hu (j + 1) q.2 (by simp [hj, ← hk])
        omega
      simp only [List.eraseIdx_cons_zero, aerase, List.filter_cons, bne_self_eq_false, Bool.false_eq_true, if_false]
      symm; apply List.filter_eq_self.mpr
      intro q hq; simp [this q hq]
    | succ n =>
      simp at hi
      have hp : p.1 ≠ k := by
        intro hk
        have := hu 0 p.2 (by simp [← hk])
        omega
      have := ih n hi (fun j w hj => by have := hu (j + 1) w (by simpa using hj); omega)
      simp only [List.eraseIdx_cons_succ, this, aerase, List.filter_cons]
      simp [hp]

/-- `remove` never panics, keeps the invariant, is `aerase` on the entries and returns the value -/
theorem remove_refines {d : DictRep V} (h : d.Inv) (k : String) :
    ∃ d', d.remove k = some (d', d.entries.lookup k) ∧ d'.Inv ∧ d'.entries = aerase d.entries k := by
  have hget := get_eq_lookup h k
  unfold get at hget
  unfold remove
  cases hi : d.indices k with
  | none =>
    rw [hi] at hget
    refine ⟨d, by simp [← hget], h, ?_⟩
    have := lookup_eq_none_iff.mp hget.symm
    unfold aerase
    symm; apply List.filter_eq_self.mpr
    intro q hq
    have : q.1 ≠ k := fun hk => this (List.mem_map.mpr ⟨q, hq, hk⟩)
    simp [this]
  | some i =>
    obtain ⟨w, hw⟩ := h.fwd k i hi
    rw [hi] at hget; simp only [hw, Option.map_some] at hget
    have hlt := (List.getElem?_eq_some_iff.mp hw).1
    refine ⟨_, by simp only [hw, ← hget]; rfl, ⟨?_, ?_, ?_⟩, ?_⟩
    · intro k' j' hj'
      simp only at hj' ⊢
      by_cases hk : k' = k
      · simp [hk] at hj'
      · simp only [hk, if_false] at hj'
        cases hj : d.indices k' with
        | none => rw [hj] at hj'; simp at hj'
        | some j =>
          rw [hj] at hj'; simp only [Option.map_some, Option.some.injEq] at hj'
          obtain ⟨v', hv'⟩ := h.fwd k' j hj
          have hne : j ≠ i := by
            intro e; subst e
            rw [hw] at hv'; exact hk (Prod.mk.inj (Option.some.inj hv')).1.symm
          refine ⟨v', ?_⟩
          rw [List.getElem?_eraseIdx]
          by_cases hgt : j > i
          · simp only [hgt, if_true] at hj'
            have : ¬ j' < i := by omega
            simp only [this, if_false]
            have : j' + 1 = j := by omega
            rw [this]; exact hv'
          · simp only [hgt, if_false] at hj'
            subst hj'
            have : j < i := by omega
            simp [this, hv']
    · intro j' k' v' hj'
      simp only at hj' ⊢
      rw [List.getElem?_eraseIdx] at hj'
      by_cases hlt' : j' < i
      · simp only [hlt', if_true] at hj'
        have hk : k' ≠ k := by
          intro e; subst e
          have := h.uniq hj' hw; omega
        have := h.bwd j' k' v' hj'
        simp [hk, this]; omega
      · simp only [hlt', if_false] at hj'
        have hk : k' ≠ k := by
          intro e; subst e
          have := h.uniq hj' hw; omega
        have := h.bwd (j' + 1) k' v' hj'
        simp [hk, this]; omega
    · simp [h.size, List.length_eraseIdx, hlt]
    · exact eraseIdx_eq_filter d.entries i k w hw (fun j w' hj => h.uniq hj hw)

/-! ## update_key -/

/-- `update_key` never panics; it fails exactly when the old key is missing or the new one is
taken; otherwise it keeps the invariant and renames the entry in place (the `map` of
`Dim.renameAttribute`) -/
theorem updateKey_refines {d : DictRep V} (h : d.Inv) (old new : String) :
    (d.entries.lookup old = none ∧ d.updateKey old new = some (.error .missing)) ∨
    ((d.entries.lookup old).isSome ∧ (d.entries.lookup new).isSome ∧
      d.updateKey old new = some (.error .existing)) ∨
    ((d.entries.lookup old).isSome ∧ d.entries.lookup new = none ∧
      ∃ d', d.updateKey old new = some (.ok d') ∧ d'.Inv ∧
        d'.entries = d.entries.map (fun p => if p.1 == old then (new, p.2) else p)) := by
  have hgo := get_eq_lookup h old
  have hgn := get_eq_lookup h new
  unfold get at hgo hgn
  unfold updateKey
  cases hi : d.indices old with
  | none => rw [hi] at hgo; exact .inl ⟨hgo.symm, rfl⟩
  | some i =>
    obtain ⟨w, hw⟩ := h.fwd old i hi
    rw [hi] at hgo; simp only [hw, Option.map_some] at hgo
    have hlt := (List.getElem?_eq_some_iff.mp hw).1
    cases hn : d.indices new with
    | some j =>
      obtain ⟨w', hw'⟩ := h.fwd new j hn
      rw [hn] at hgn; simp only [hw', Option.map_some] at hgn
      exact .inr (.inl ⟨by simp [← hgo], by simp [← hgn], rfl⟩)
    | none =>
      rw [hn] at hgn
      have hne : old ≠ new := by intro e; rw [e] at hi; rw [hi] at hn; cases hn
      refine .inr (.inr ⟨by simp [← hgo], hgn.symm, _, by simp only [hw]; rfl, ⟨?_, ?_, ?_⟩, ?_⟩)
      · intro k' j hj
        simp only at hj ⊢
        by_cases hk : k' = old
        · simp [hk] at hj
        · simp only [hk, if_false] at hj
          by_cases hk' : k' = new
          · subst hk'
            simp at hj; subst hj
            exact ⟨w, by simp [hlt]⟩
          · simp only [hk', if_false] at hj
            obtain ⟨v', hv'⟩ := h.fwd k' j hj
            have hji : j ≠ i := by
              intro e; subst e
              rw [hw] at hv'; exact hk (Prod.mk.inj (Option.some.inj hv')).1.symm
            exact ⟨v', by rw [List.getElem?_set_ne (Ne.symm hji)]; exact hv'⟩
      · intro j k' v' hj
        simp only at hj ⊢
        by_cases hji : j = i
        · subst hji
          simp [hlt] at hj
          obtain ⟨rfl, rfl⟩ := hj
          simp [Ne.symm hne]
        · rw [List.getElem?_set_ne (Ne.symm hji)] at hj
          have hb := h.bwd j k' v' hj
          have hk : k' ≠ old := by
            intro e; subst e
            exact hji (h.uniq hj hw)
          have hk' : k' ≠ new := by
            intro e; subst e
            rw [hn] at hb; cases hb
          simp [hk, hk', hb]
      · simp [h.size]
      · refine set_eq_map (new, w) _ hw (by simp) (fun j w' hj => h.uniq hj hw) ?_
        intro p hp; simp [hp]

/-! ## get_mut -/

/-- assigning through `get_mut` is `areplace` with the modified value; `false` iff the key is missing -/
theorem modify_refines {d : DictRep V} (h : d.Inv) (k : String) (f : V → V) :
    match d.entries.lookup k with
    | none => d.modify k f = (d, false)
    | some v => ∃ d', d.modify k f = (d', true) ∧ d'.Inv ∧ d'.entries = areplace d.entries k (f v) := by
  have hget := get_eq_lookup h k
  unfold get at hget
  unfold modify
  cases hi : d.indices k with
  | none => rw [hi] at hget; rw [← hget]
  | some i =>
    obtain ⟨w, hw⟩ := h.fwd k i hi
    rw [hi] at hget; simp only [hw, Option.map_some] at hget
    rw [← hget]
    have hlt := (List.getElem?_eq_some_iff.mp hw).1
    refine ⟨_, by simp only [hw]; rfl, ⟨?_, ?_, ?_⟩, ?_⟩
    · intro k' j hj
      obtain ⟨v', hv'⟩ := h.fwd k' j hj
      by_cases hji : j = i
      · subst hji
        have : k' = k := by rw [hw] at hv'; exact (Prod.mk.inj (Option.some.inj hv')).1.symm
        subst this
        exact ⟨f w, by simp [hlt]⟩
      · exact ⟨v', by simp only; rw [List.getElem?_set_ne (Ne.symm hji)]; exact hv'⟩
    · intro j k' v' hj
      simp only at hj
      by_cases hji : j = i
      · subst hji
        simp [hlt] at hj
        rw [← hj.1]; exact hi
      · rw [List.getElem?_set_ne (Ne.symm hji)] at hj
        exact h.bwd j k' v' hj
    · simp [h.size]
    · unfold areplace
      refine set_eq_map (k, f w) _ hw (by simp) (fun j w' hj => h.uniq hj hw) ?_
      intro p hp; simp [hp]

/-! ## collect, and the hierarchy arm of `add_attribute` -/

/-- the fold of `insert`s behind `FromIterator` and the re-insertion loop -/
def insertAll (acc : Option (DictRep V)) (l : List (String × V)) : Option (DictRep V) :=
  l.foldl (fun acc p => acc.bind (fun d => (d.insert p.1 p.2).map (·.1))) acc

theorem insertAll_refines (l : List (String × V)) : ∀ (d : DictRep V), d.Inv →
    ((d.entries ++ l).map (·.1)).Nodup →
    ∃ d', insertAll (some d) l = some d' ∧ d'.Inv ∧ d'.entries = d.entries ++ l := by
  induction l with
  | nil => intro d h _; exact ⟨d, rfl, h, by simp⟩
  | cons p t ih =>
    intro d h hnd
    obtain ⟨d1, h1, hinv1, hent1⟩ := insert_refines h p.1 p.2
    have hnot : d.entries.lookup p.1 = none := by
      apply lookup_eq_none_iff.mpr
      intro hm
      rw [List.map_append, List.map_cons, List.nodup_append] at hnd
      exact hnd.2.2 p.1 hm p.1 List.mem_cons_self rfl
    have hent1' : d1.entries = d.entries ++ [p] := by rw [hent1]; simp [ainsert, hnot]
    have hnd1 : ((d1.entries ++ t).map (·.1)).Nodup := by
      rw [hent1']; simpa [List.append_assoc] using hnd
    obtain ⟨d', h2, hinv2, hent2⟩ := ih d1 hinv1 hnd1
    refine ⟨d', ?_, hinv2, by rw [hent2, hent1']; simp⟩
    simp only [insertAll, List.foldl_cons, Option.bind_some, h1, Option.map_some] at h2 ⊢
    exact h2

/-- collecting a list with distinct keys never panics and gives a `Dict` whose entries are that list -/
theorem fromList_refines (l : List (String × V)) (hnd : (l.map (·.1)).Nodup) :
    ∃ d, fromList l = some d ∧ d.Inv ∧ d.entries = l := by
  have := insertAll_refines l (empty : DictRep V) inv_empty (by simpa [empty] using hnd)
  simpa [empty, fromList, insertAll] using this

/-- the hierarchy arm of `Dimension::add_attribute` carried out on the two-structure
representation (clone, walk, collect, insert, re-insert) never panics and is `Dim.insertAbove`
on the entries, for a name the dimension does not hold yet -/
theorem addAbove_refines (d : DictRep Attr) (h : d.Inv) (name after : String) (a : Attr)
    (hnew : d.entries.lookup name = none) :
    ∃ d', d.addAbove name a after = some d' ∧ d'.Inv ∧
      d'.entries = Dim.insertAbove d.entries name a after := by
  obtain ⟨pre, suf, hsplit, hins⟩ := insertAbove_eq d.entries name after a h.nodup
  have hnd : ((Dim.insertAbove d.entries name a after).map (·.1)).Nodup := by
    rw [hins]
    have hk := h.nodup
    rw [hsplit] at hk
    have hx : name ∉ (pre ++ suf).map (·.1) := by
      rw [← hsplit]; exact lookup_eq_none_iff.mp hnew
    simp only [List.map_append] at hk hx ⊢
    exact nodup_insert_mid _ _ name hk hx
  obtain ⟨d', hd', hinv, hent⟩ := fromList_refines _ hnd
  refine ⟨d', ?_, hinv, hent⟩
  rw [← hd']
  unfold addAbove fromList Dim.insertAbove iter
  simp only [List.foldl_append, List.foldl_cons, List.foldl_nil]
  generalize (List.foldl (fun acc p => acc.bind (fun d => (d.insert p.1 p.2).map (·.1))) (some empty)
    (List.takeWhile (fun p => some p != (List.takeWhile (fun p => p.1 != after) d.entries.reverse).getLast?) d.entries)) = o
  cases o with
  | none =>
    simp only [Option.bind_none]
    induction (List.takeWhile (fun p => p.1 != after) d.entries.reverse).reverse with
    | nil => rfl
    | cons x xs ih => simpa using ih
  | some nd =>
    simp only [Option.bind_some]
    cases hi : nd.insert name a with
    | none =>
      simp only [Option.bind_none, Option.map_none]
      induction (List.takeWhile (fun p => p.1 != after) d.entries.reverse).reverse with
      | nil => rfl
      | cons x xs ih => simpa using ih
    | some r => simp

end CC.DictRep
