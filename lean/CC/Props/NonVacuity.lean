import CC.Props.C01
import CC.Props.C02
import CC.Props.C03
import CC.Props.C04
import CC.Props.C05
import CC.Props.C06
import CC.Props.C09
import CC.Props.C11
import CC.Props.C17
import CC.Props.C18
/-! # Witnesses: the hypotheses of the reachable-world theorems are met by concrete histories

These are **tests** (`#guard`, evaluated by the Lean interpreter when the file is built — a failing
guard fails the build), not theorems: each runs a concrete operation history from `setup` through
the model's own `World.step` and checks that the hypotheses of one of the "over every history"
theorems hold there and that its conclusion is the non-trivial outcome. They guard against a
theorem whose premises no reachable state meets. (Kernel evaluation by `decide` is not available
for these: `Right.fromPoint` sorts with the well-founded `mergeSort`.) -/
namespace CC.Props.NonVacuity
open CC

instance (s : Struct) (i : Nat) : Decidable (s.IdDisabled i) := by
  unfold Struct.IdDisabled; exact inferInstance

def pol (s : String) : AP := match parse s with | .ok p => p | .error _ => .broadcast

/-- a hierarchy S: L < T (T hybridized) and an unordered D: A, B; master key updated -/
def base : List Op :=
  [.edit (.addDim "S" true), .edit (.addAttr "S" "L" false none), .edit (.addAttr "S" "T" true (some "L")),
   .edit (.addDim "D" false), .edit (.addAttr "D" "A" false none), .edit (.addAttr "D" "B" false none), .update]

def run (ops : List Op) : World := ops.foldl World.step (World.init 0 defaultTracers)

def keygenOf (w : World) (p : String) : Option Usk :=
  match w.msk.structure_.uskRights (pol p) with
  | .ok rs => (uskKeygen w.msk rs w.rng).1.toOption
  | .error _ => none

def encapsOf (w : World) (p : String) (n : Rng) : Option (Nat × XEnc) :=
  match w.msk.mpk.structure_.encRights (pol p) with
  | .ok rs => (encaps w.msk.mpk rs n).1.toOption
  | .error _ => none

/-! C01 / C02: well-formed policies, covering and not covering, in a reachable world -/
#guard Spec.policyWf (run base).msk.structure_ (pol "S::T && D::A")
#guard Spec.policyWf (run base).msk.structure_ (pol "S::L && D::A || D::B")
#guard Spec.covers (run base).msk.structure_ (pol "S::T && D::A") (pol "S::L && D::A") == true
#guard Spec.covers (run base).msk.structure_ (pol "S::L && D::A") (pol "S::T && D::A") == false
#guard (do let u ← keygenOf (run base) "S::T && D::A"; let (s, x) ← encapsOf (run base) "S::L && D::A" 1000
           pure (decaps u x == some s)) == some true
#guard (do let u ← keygenOf (run base) "S::L && D::A"; let (_, x) ← encapsOf (run base) "S::T && D::A" 1000
           pure (decaps u x == none)) == some true

/-! C06: disable D::A, update succeeds, later operations; encapsulation for a right with the
disabled identifier fails while others succeed -/
def disabled : World := run (base ++ [.edit (.disable "D" "A")])
#guard decide (disabled.msk.structure_.IdDisabled 2)
#guard (updateMsk disabled.msk disabled.msk.structure_.omega disabled.rng).1 matches .ok ()
def later : World :=
  [Op.rekey (pol "D::A"), .edit (.addAttr "D" "C" false none), .update, .prune (pol "D::A")].foldl World.step (disabled.step .update)
#guard (encaps later.msk.mpk [Right.fromPoint [2]] 5000).1 matches .error .keyError
#guard (encaps later.msk.mpk [Right.fromPoint [0, 2]] 5000).1 matches .error .keyError
#guard (encaps later.msk.mpk [Right.fromPoint [3]] 5000).1 matches .ok _

/-! C04: a rekey succeeds; a key issued before it holds only older tokens; the encapsulation made
afterwards for a rekeyed right exists -/
def w4 : World := run base
def rekeyOk (w : World) (p : String) : Bool :=
  match w.msk.structure_.uskRights (pol p) with
  | .ok rs => ((rekey w.msk rs w.rng).1 matches .ok ())
  | .error _ => false
#guard rekeyOk w4 "D::A"
#guard (do let u ← keygenOf w4 "D::A"
           pure (u.secrets.all (fun c => c.2.all (fun k => decide (k.tok < w4.rng + 100))))) == some true
-- stale key, refreshed key
#guard (do
  let u ← keygenOf w4 "D::A"
  let w' := (w4.step (.keygen (pol "D::A"))).step (.rekey (pol "D::A"))
  let (s, x) ← encapsOf w' "D::A" 9000
  let r := refresh w'.msk u true w'.rng
  pure (decaps u x == none && r.1 matches .ok () && decaps r.2.2.1 x == some s)) == some true

/-! C05: after rekey + prune, a refreshed key (either flag) does not open what was made under the
pruned secret, and still opens the rest -/
#guard (do
  let u ← keygenOf w4 "D::A"
  let w1 := w4.step (.keygen (pol "D::A"))
  let (sOld, xOld) ← encapsOf w1 "D::A" 9000
  let w2 := (w1.step (.rekey (pol "D::A"))).step (.prune (pol "D::A"))
  let (sNew, xNew) ← encapsOf w2 "D::A" 9100
  let rk := refresh w2.msk u true w2.rng
  let rn := refresh w2.msk u false w2.rng
  pure (decaps u xOld == some sOld && rk.1 matches .ok () && rn.1 matches .ok () &&
        decaps rk.2.2.1 xOld == none && decaps rn.2.2.1 xOld == none &&
        decaps rk.2.2.1 xNew == some sNew && decaps rn.2.2.1 xNew == some sNew)) == some true

/-! C09: an issued key stays refreshable after rekeys, prunes, deletions, updates -/
#guard (do
  let u ← keygenOf w4 "S::T && D::A"
  let w1 := w4.step (.keygen (pol "S::T && D::A"))
  let w2 := [Op.rekey (pol "D::A"), .prune (pol "D::A"), .edit (.delAttr "D" "A"), .update, .edit (.delDim "S"), .update].foldl World.step w1
  pure ((refresh w2.msk u true w2.rng).1 matches .ok () && (refresh w2.msk u false w2.rng).1 matches .ok ())) == some true

/-! C03: identifiers after delete + add are fresh -/
#guard ((run (base ++ [.edit (.delAttr "D" "B"), .edit (.addAttr "D" "E" false none)])).msk.structure_.dims.lookup "D").map
  (fun d => d.attrs.map (fun a => a.2.id)) == some [2, 4]

/-! C04 (keep): generate, encapsulate, rekey twice (partially), prune another right, edit and
update; then refresh with keep: the old encapsulation still opens, and the hypotheses of
`keep_refresh_still_opens` (the opening secret is still in the master key) hold -/
#guard (do
  let u ← keygenOf w4 "S::T && D::A"
  let w1 := w4.step (.keygen (pol "S::T && D::A"))
  let (sOld, xOld) ← encapsOf w1 "D::A" 9000
  let w2 := [Op.rekey (pol "D::A"), .rekey (pol "S::T && D::A"), .prune (pol "D::B"), .edit (.addAttr "D" "C" true none), .update].foldl World.step w1
  let r := refresh w2.msk u true w2.rng
  let stillHeld := u.secrets.any (fun (rt, ch) => ch.any (fun k => xOld.targets.any (fun t => opens xOld.hybrid k t) &&
    ((w2.msk.secrets.lookup rt).map (fun mc => (mc.map (·.2)).contains k)).getD false))
  pure (decaps u xOld == some sOld && r.1 matches .ok () && stillHeld && decaps r.2.2.1 xOld == some sOld)) == some true

/-! C11: after edits, updates and rekeys the newest secret of a right with a hybridized attribute
is hybridized, of a right without one classic -/
#guard (let w := [Op.rekey (pol "S::T"), .edit (.disable "S" "T"), .update, .rekey (pol "D::A")].foldl World.step w4
  ((w.msk.secrets.lookup (Right.fromPoint [1])).bind List.head?).map (·.2.hyb) == some true &&
  ((w.msk.secrets.lookup (Right.fromPoint [2])).bind List.head?).map (·.2.hyb) == some false &&
  ((w.msk.secrets.lookup (Right.fromPoint [1, 2])).bind List.head?).map (·.2.hyb) == some true)

/-! C03 (rename): a key generated before renaming D::A to D::Z opens an encapsulation made afterwards
for D::Z, and the cover relation with the new names says so -/
#guard (do
  let u ← keygenOf w4 "S::T && D::A"
  let w1 := [Op.keygen (pol "S::T && D::A"), .edit (.rename "D" "A" "Z"), .update].foldl World.step w4
  let (s, x) ← encapsOf w1 "S::L && D::Z" 9000
  pure (decaps u x == some s &&
    Spec.coversClause w1.msk.structure_ ([⟨"S", "T"⟩, ⟨"D", "A"⟩].map (renQA "D" "A" "Z")) ([⟨"S", "L"⟩, ⟨"D", "A"⟩].map (renQA "D" "A" "Z")))) == some true

/-! C17: two key generations in a row hand out different identifiers, both registered afterwards -/
#guard (do
  let u1 ← keygenOf w4 "D::A"
  let w1 := w4.step (.keygen (pol "D::A"))
  let u2 ← keygenOf w1 "D::A"
  let w2 := w1.step (.keygen (pol "D::A"))
  pure (u1.id != u2.id && w2.msk.users.contains u1.id && w2.msk.users.contains u2.id && !w4.msk.users.contains u1.id)) == some true

/-! C18: re-encapsulation after a rekey; a key for another right does not open the result, a
refreshed authorised key does -/
#guard (do
  let ua ← keygenOf w4 "D::A"
  let ub ← keygenOf (w4.step (.keygen (pol "D::A"))) "D::B"
  let w1 := [Op.keygen (pol "D::A"), .keygen (pol "D::B")].foldl World.step w4
  let (_, x) ← encapsOf w1 "D::A" 9000
  let w2 := w1.step (.rekey (pol "D::A"))
  let r := recaps w2.msk w2.msk.mpk x 9500
  let (s', x') ← r.1.toOption
  let ra := refresh w2.msk ua false w2.rng
  pure (decaps ub x' == none && decaps ra.2.2.1 x' == some s')) == some true

end CC.Props.NonVacuity

/-! Reachable worlds at a higher tracing level (4 tracers): the hypotheses of the reachable-world
theorems are met there as well, identifiers have 4 markers, encapsulations 4 traps, and an
authorised key opens. -/
namespace CC.Props.NonVacuityLevels
open CC CC.Props.NonVacuity

def run4 (ops : List Op) : World := ops.foldl World.step (World.init 0 4)

#guard (run4 base).msk.ntracers == 4
#guard ((keygenOf (run4 base) "S::T && D::A").map (fun u => (u.id.length, u.nps))) == some (4, 4)
#guard ((encapsOf (run4 base) "S::L && D::A" 1000).map (fun p => p.2.ntraps)) == some 4
#guard (match keygenOf (run4 base) "S::T && D::A", encapsOf (run4 base) "S::L && D::A" 1000 with
  | some u, some (s, x) => decaps u x == some s
  | _, _ => false)
#guard (match keygenOf (run4 base) "S::L && D::B", encapsOf (run4 base) "S::T && D::A" 1000 with
  | some u, some (_, x) => decaps u x == none
  | _, _ => false)

end CC.Props.NonVacuityLevels

/-! C16 `rekey_never_republishes`: hypotheses met in a reachable world (a published value, then
operations, then a rekey of rights the master key holds) -/
namespace CC.Props.NonVacuityRekey
open CC CC.Props.NonVacuity
#guard !(run base).msk.mpk.keys.isEmpty
#guard (match (run (base ++ [.keygen (pol "D::A"), .rekey (pol "S::T")])).msk.structure_.uskRights (pol "D::A") with
  | .ok rs => rs.all (fun r => ((run (base ++ [.keygen (pol "D::A"), .rekey (pol "S::T")])).msk.secrets.getLatest r).isSome) && !rs.isEmpty
  | .error _ => false)
end CC.Props.NonVacuityRekey

/-! C16 `replaced_value_never_returns`: a published value, then a rekey after which the newest
secret of that right is another one (the hypothesis `HeadNe`, evaluated) -/
namespace CC.Props.NonVacuityReplaced
open CC CC.Props.NonVacuity
def w0 := run base
def firstPub : Option (Right × Sk) := w0.msk.mpk.keys.head?
#guard firstPub.isSome
#guard (match firstPub with
  | some (r0, pk0) =>
    (match ((run (base ++ [.rekey .broadcast])).msk.secrets.lookup r0).bind List.head? with
     | some h0 => h0.2.tok != pk0.tok
     | none => false)
  | none => false)
end CC.Props.NonVacuityReplaced
