import CC.Model.Structure
/-! # The name-level cover relation (the oracle of C01 / C02 / C03)

Written directly from the property statement: a user clause covers an encryption clause when,
in every dimension the user clause mentions, the encryption clause names no attribute or one
that is the same (anarchy) or the same-or-lower (hierarchy); dimensions the user clause does not
mention are unconstrained. No ids, no rights, no bytes. -/

namespace CC.Spec
open CC

/-- position of a name in a dimension's (ascending) attribute list -/
def pos (d : Dim) (x : String) : Option Nat :=
  let i := d.attrs.findIdx (fun p => p.1 == x)
  if i < d.attrs.length then some i else none

/-- `x ≤ y` inside dimension `d` -/
def leq (d : Dim) (x y : String) : Bool :=
  match pos d x, pos d y with
  | some i, some j => if d.ordered then i ≤ j else x == y
  | _, _ => false

/-- every attribute of the clause exists -/
def clauseKnown (s : Struct) (c : List QA) : Bool :=
  c.all (fun q => match s.dims.lookup q.dim with
    | none => false
    | some d => (pos d q.name).isSome)

/-- the clause names each dimension at most once -/
def clauseWf (c : List QA) : Bool := (c.map (·.dim)).Nodup

def coversClause (s : Struct) (c ε : List QA) : Bool :=
  ε.all (fun qx => c.all (fun qy =>
    qy.dim != qx.dim ||
      (match s.dims.lookup qx.dim with
       | none => false
       | some d => leq d qx.name qy.name)))

/-- a policy is well formed over `s` when all its DNF clauses are known and name each dimension once -/
def policyWf (s : Struct) (p : AP) : Bool :=
  p.toDnf.all (fun c => clauseKnown s c && decide (clauseWf c))

def covers (s : Struct) (u e : AP) : Bool :=
  u.toDnf.any (fun c => e.toDnf.any (fun ε => coversClause s c ε))

end CC.Spec
