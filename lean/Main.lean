import CC.Driver
open CC.Drv

partial def loop (h : IO.FS.Stream) (out : IO.FS.Stream) (st : St) : IO Unit := do
  let line ← h.getLine
  if line.isEmpty then return ()
  let (st', o) := step st line
  out.putStrLn o
  loop h out st'

def main : IO Unit := do
  let out ← IO.getStdout
  loop (← IO.getStdin) out {}
