use cosmian_cover_crypt::{
    api::Covercrypt, traits::KemAc, AccessPolicy, EncryptedHeader, EncryptionHint,
    MasterPublicKey, MasterSecretKey, QualifiedAttribute, UserSecretKey, XEnc,
};
use cosmian_crypto_core::bytes_ser_de::Serializable;

fn qa(d: &str, n: &str) -> QualifiedAttribute {
    QualifiedAttribute::new(d, n)
}
fn ap(s: &str) -> AccessPolicy {
    AccessPolicy::parse(s).unwrap()
}

fn base(cc: &Covercrypt) -> (MasterSecretKey, MasterPublicKey) {
    let (mut msk, _) = cc.setup().unwrap();
    let s = &mut msk.access_structure;
    s.add_hierarchy("SEC".into()).unwrap();
    s.add_attribute(qa("SEC", "LOW"), EncryptionHint::Classic, None).unwrap();
    s.add_attribute(qa("SEC", "TOP"), EncryptionHint::Hybridized, Some("LOW")).unwrap();
    s.add_anarchy("DPT".into()).unwrap();
    for a in ["RD", "HR", "FIN"] {
        s.add_attribute(qa("DPT", a), EncryptionHint::Classic, None).unwrap();
    }
    let mpk = cc.update_msk(&mut msk).unwrap();
    (msk, mpk)
}

#[test]
fn d1_id_collision() {
    let cc = Covercrypt::default();
    let (mut msk, _mpk) = base(&cc);
    // ids: LOW 0, TOP 1, RD 2, HR 3, FIN 4
    msk.access_structure.del_attribute(&qa("DPT", "RD")).unwrap();
    let _ = cc.update_msk(&mut msk).unwrap();
    let usk_fin = cc.generate_user_secret_key(&mut msk, &ap("DPT::FIN")).unwrap();
    msk.access_structure
        .add_attribute(qa("DPT", "NEW"), EncryptionHint::Classic, None)
        .unwrap();
    let mpk = cc.update_msk(&mut msk).unwrap();
    let (_s, enc) = cc.encaps(&mpk, &ap("DPT::NEW")).unwrap();
    let r = cc.decaps(&usk_fin, &enc).unwrap();
    println!("D1: FIN key opens NEW: {}", r.is_some());
    println!("D1 structure: {:?}", msk.access_structure);
}

#[test]
fn d2_shortest_chain() {
    let cc = Covercrypt::default();
    let (mut msk, mpk) = base(&cc);
    let mut usk = cc.generate_user_secret_key(&mut msk, &ap("DPT::FIN")).unwrap();
    let (s_old, enc_old) = cc.encaps(&mpk, &ap("DPT::FIN && SEC::LOW")).unwrap();
    assert_eq!(cc.decaps(&usk, &enc_old).unwrap(), Some(s_old.clone()));
    // rotate only a strict subset of the key's rights
    let _mpk2 = cc.rekey(&mut msk, &ap("DPT::FIN && SEC::LOW")).unwrap();
    cc.refresh_usk(&mut msk, &mut usk, true).unwrap();
    let r = cc.decaps(&usk, &enc_old).unwrap();
    println!("D2: after partial rekey + refresh(keep) old enc opens: {}", r.is_some());
}

#[test]
fn d3_pruned_secret_survives() {
    let cc = Covercrypt::default();
    let (mut msk, mpk) = base(&cc);
    let mut usk = cc.generate_user_secret_key(&mut msk, &ap("*")).unwrap();
    let (_s, enc_old) = cc.encaps(&mpk, &ap("DPT::FIN")).unwrap();
    let _ = cc.rekey(&mut msk, &ap("*")).unwrap();
    let _ = cc.prune_master_secret_key(&mut msk, &ap("*")).unwrap();
    let before = usk.serialize().unwrap().len();
    cc.refresh_usk(&mut msk, &mut usk, true).unwrap();
    let after = usk.serialize().unwrap().len();
    let r = cc.decaps(&usk, &enc_old).unwrap();
    println!("D3: pruned secret still usable after refresh(keep): {} (len {} -> {})", r.is_some(), before, after);
}

#[test]
fn d4_rekey_reenables_disabled() {
    let cc = Covercrypt::default();
    let (mut msk, _mpk) = base(&cc);
    msk.access_structure.disable_attribute(&qa("DPT", "FIN")).unwrap();
    let mpk = cc.update_msk(&mut msk).unwrap();
    println!("D4: after disable+update encaps FIN err: {}", cc.encaps(&mpk, &ap("DPT::FIN")).is_err());
    let mpk = cc.rekey(&mut msk, &ap("DPT::FIN")).unwrap();
    println!("D4: after rekey encaps FIN err: {}", cc.encaps(&mpk, &ap("DPT::FIN")).is_err());
    let mpk = cc.update_msk(&mut msk).unwrap();
    println!("D4: after rekey+update encaps FIN err: {}", cc.encaps(&mpk, &ap("DPT::FIN")).is_err());
}

#[test]
fn d5_refresh_nokeep_after_delete() {
    let cc = Covercrypt::default();
    let (mut msk, _mpk) = base(&cc);
    let mut usk = cc.generate_user_secret_key(&mut msk, &ap("DPT::FIN")).unwrap();
    msk.access_structure.del_attribute(&qa("DPT", "FIN")).unwrap();
    let _ = cc.update_msk(&mut msk).unwrap();
    let before = usk.serialize().unwrap().to_vec();
    let r = cc.refresh_usk(&mut msk, &mut usk, false);
    let after = usk.serialize().unwrap().to_vec();
    println!("D5: refresh(nokeep) after delete is_err={} usk changed={} len {}->{}", r.is_err(), before != after, before.len(), after.len());
}

#[test]
fn d6_update_error_empties_msk() {
    let cc = Covercrypt::default();
    let (mut msk, _mpk) = base(&cc);
    msk.access_structure
        .add_attribute(qa("DPT", "X"), EncryptionHint::Classic, None)
        .unwrap();
    msk.access_structure.disable_attribute(&qa("DPT", "X")).unwrap();
    let before = msk.serialize().unwrap().len();
    let r = cc.update_msk(&mut msk);
    let after = msk.serialize().unwrap().len();
    println!("D6: update err={} msk len {} -> {}", r.is_err(), before, after);
}

#[test]
fn d7_rekey_partial() {
    let cc = Covercrypt::default();
    let mut hits = 0;
    for _ in 0..10 {
        let (mut msk, _mpk) = base(&cc);
        msk.access_structure
            .add_attribute(qa("DPT", "X"), EncryptionHint::Classic, None)
            .unwrap();
        let before = msk.serialize().unwrap().len();
        let r = cc.rekey(&mut msk, &ap("*"));
        let after = msk.serialize().unwrap().len();
        assert!(r.is_err());
        if before != after {
            hits += 1;
        }
    }
    println!("D7: failed rekey changed msk in {hits}/10 runs");
}

#[test]
fn d8_unknown_id_empties_usk() {
    let cc = Covercrypt::default();
    let (mut msk, _mpk) = base(&cc);
    let old = msk.serialize().unwrap();
    let mut usk = cc.generate_user_secret_key(&mut msk, &ap("DPT::FIN")).unwrap();
    let mut msk_old = MasterSecretKey::deserialize(&old).unwrap();
    let before = usk.serialize().unwrap().to_vec();
    let r = cc.refresh_usk(&mut msk_old, &mut usk, true);
    let after = usk.serialize().unwrap().to_vec();
    println!("D8: refresh with unknown id err={:?} usk changed={} len {}->{}", r.err().map(|e| e.to_string()), before != after, before.len(), after.len());
}

#[test]
fn d11_parser_panics() {
    for s in ["é::x", "(D::é)", "D::A |é", "D::A && (D::B || Dé::C)", "D::é && D::B", "D::A &é"] {
        let r = std::panic::catch_unwind(|| AccessPolicy::parse(s).map(|p| format!("{p:?}")));
        println!("D11: parse({s:?}) -> {:?}", r.map_err(|_| "PANIC"));
    }
}

#[test]
fn d12_header_ad_unbound_without_metadata() {
    let cc = Covercrypt::default();
    let (mut msk, mpk) = base(&cc);
    let usk = cc.generate_user_secret_key(&mut msk, &ap("DPT::FIN")).unwrap();
    let (_s, h) = EncryptedHeader::generate(&cc, &mpk, &ap("DPT::FIN"), None, Some(b"ad1")).unwrap();
    let r = h.decrypt(&cc, &usk, Some(b"other"));
    println!("D12: header w/o metadata, different AD -> ok={}", r.is_ok());
    let (_s, h) = EncryptedHeader::generate(&cc, &mpk, &ap("DPT::FIN"), Some(b""), Some(b"ad1")).unwrap();
    let r = h.decrypt(&cc, &usk, Some(b"other"));
    println!("D12: header empty metadata, different AD -> ok={}", r.is_ok());
    let bytes = h.serialize().unwrap();
    println!("D12: len announced {} actual {}", h.length(), bytes.len());
}

#[test]
fn d10_deser() {
    // XEnc with huge trap count
    let mut bytes = vec![0u8; 16];
    bytes.extend_from_slice(&[0xff, 0xff, 0xff, 0xff, 0xff, 0xff, 0xff, 0x7f]); // 2^56-1
    let r = std::panic::catch_unwind(|| XEnc::deserialize(&bytes).is_ok());
    println!("D10: XEnc huge n_traps -> {:?}", r.map_err(|_| "PANIC"));
    // XEnc zero traps
    let mut bytes = vec![0u8; 16];
    bytes.extend_from_slice(&[0, 0, 0]);
    let r = std::panic::catch_unwind(|| {
        let x = XEnc::deserialize(&bytes).unwrap();
        x.tracing_level()
    });
    println!("D10: XEnc zero traps tracing_level -> {:?}", r.map_err(|_| "PANIC"));
}

#[test]
fn d13_lengths() {
    let cc = Covercrypt::default();
    let (mut msk, mpk) = base(&cc);
    let usk = cc.generate_user_secret_key(&mut msk, &ap("DPT::FIN")).unwrap();
    println!("D13: msk len {} vs {}", msk.length(), msk.serialize().unwrap().len());
    println!("D13: mpk len {} vs {}", mpk.length(), mpk.serialize().unwrap().len());
    println!("D13: usk len {} vs {}", usk.length(), usk.serialize().unwrap().len());
    let m2 = MasterSecretKey::deserialize(&msk.serialize().unwrap()).unwrap();
    println!("D13: msk eq after roundtrip {}", m2 == msk);
    let _ = UserSecretKey::deserialize(&usk.serialize().unwrap()).unwrap();
}
