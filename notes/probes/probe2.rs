use cosmian_cover_crypt::{
    api::Covercrypt, traits::KemAc, traits::PkeAc, AccessPolicy, EncryptedHeader, EncryptionHint,
    MasterPublicKey, MasterSecretKey, QualifiedAttribute, UserSecretKey, XEnc,
};
use cosmian_crypto_core::{bytes_ser_de::Serializable, Aes256Gcm};

fn qa(d: &str, n: &str) -> QualifiedAttribute {
    QualifiedAttribute::new(d, n)
}
fn ap(s: &str) -> AccessPolicy {
    AccessPolicy::parse(s).unwrap()
}

fn base(cc: &Covercrypt) -> (MasterSecretKey, MasterPublicKey) {
    let (mut msk, _) = cc.setup().unwrap();
    let s = &mut msk.access_structure;
    s.add_hierarchy("SEC".into()).unwrap();
    s.add_attribute(qa("SEC", "LOW"), EncryptionHint::Classic, None).unwrap();
    s.add_attribute(qa("SEC", "MID"), EncryptionHint::Classic, Some("LOW")).unwrap();
    s.add_attribute(qa("SEC", "TOP"), EncryptionHint::Classic, Some("MID")).unwrap();
    s.add_anarchy("DPT".into()).unwrap();
    for a in ["RD", "HR", "FIN"] {
        s.add_attribute(qa("DPT", a), EncryptionHint::Classic, None).unwrap();
    }
    let mpk = cc.update_msk(&mut msk).unwrap();
    (msk, mpk)
}

fn leb(bytes: &[u8], pos: &mut usize) -> u64 {
    let mut r = 0u64;
    let mut shift = 0;
    loop {
        let b = bytes[*pos];
        *pos += 1;
        r |= ((b & 0x7f) as u64) << shift;
        if b & 0x80 == 0 {
            return r;
        }
        shift += 7;
    }
}
fn wleb(out: &mut Vec<u8>, mut n: u64) {
    loop {
        let b = (n & 0x7f) as u8;
        n >>= 7;
        if n == 0 {
            out.push(b);
            return;
        }
        out.push(b | 0x80);
    }
}

#[derive(Debug, Clone)]
struct PUsk {
    id: Vec<Vec<u8>>,
    ps: Vec<Vec<u8>>,
    chains: Vec<(Vec<u8>, Vec<(u8, Vec<u8>)>)>,
    sig: Option<Vec<u8>>,
}

fn parse_usk(b: &[u8]) -> PUsk {
    let mut p = 0;
    let n = leb(b, &mut p);
    let mut id = vec![];
    for _ in 0..n {
        id.push(b[p..p + 32].to_vec());
        p += 32;
    }
    let n = leb(b, &mut p);
    let mut ps = vec![];
    for _ in 0..n {
        ps.push(b[p..p + 32].to_vec());
        p += 32;
    }
    let n = leb(b, &mut p);
    let mut chains = vec![];
    for _ in 0..n {
        let l = leb(b, &mut p) as usize;
        let r = b[p..p + l].to_vec();
        p += l;
        let k = leb(b, &mut p);
        let mut ch = vec![];
        for _ in 0..k {
            let f = b[p];
            p += 1;
            let len = if f == 1 { 32 + 1632 } else { 32 };
            ch.push((f, b[p..p + len].to_vec()));
            p += len;
        }
        chains.push((r, ch));
    }
    let sig = if b.len() - p >= 32 { Some(b[p..p + 32].to_vec()) } else { None };
    PUsk { id, ps, chains, sig }
}

fn ser_usk(u: &PUsk) -> Vec<u8> {
    let mut o = vec![];
    wleb(&mut o, u.id.len() as u64);
    for m in &u.id {
        o.extend_from_slice(m);
    }
    wleb(&mut o, u.ps.len() as u64);
    for m in &u.ps {
        o.extend_from_slice(m);
    }
    wleb(&mut o, u.chains.len() as u64);
    for (r, ch) in &u.chains {
        wleb(&mut o, r.len() as u64);
        o.extend_from_slice(r);
        wleb(&mut o, ch.len() as u64);
        for (f, k) in ch {
            o.push(*f);
            o.extend_from_slice(k);
        }
    }
    if let Some(s) = &u.sig {
        o.extend_from_slice(s);
    }
    o
}

#[test]
fn d9_signature_framing() {
    let cc = Covercrypt::default();
    let (mut msk, _mpk) = base(&cc);
    let usk = cc.generate_user_secret_key(&mut msk, &ap("DPT::FIN && SEC::LOW")).unwrap();
    let bytes = usk.serialize().unwrap().to_vec();
    let p = parse_usk(&bytes);
    assert_eq!(ser_usk(&p), bytes, "my parser round-trips");
    println!("D9: chains: {:?}", p.chains.iter().map(|(r, c)| (r.clone(), c.len())).collect::<Vec<_>>());
    // forge 1: merge chain i+1 into right name of chain i: (R_i ++ s_i ++ R_{i+1} : [s_{i+1}])
    let mut f = p.clone();
    let (r0, c0) = f.chains[0].clone();
    let (r1, c1) = f.chains[1].clone();
    let mut newname = r0.clone();
    newname.extend_from_slice(&c0[0].1);
    newname.extend_from_slice(&r1);
    f.chains.remove(0);
    f.chains[0] = (newname, c1);
    let fb = ser_usk(&f);
    let mut forged = UserSecretKey::deserialize(&fb).unwrap();
    let before = msk.serialize().unwrap().to_vec();
    let r = cc.refresh_usk(&mut msk, &mut forged, true);
    println!("D9: forged(rename/merge) refresh ok={} ; msk changed={}", r.is_ok(), before != msk.serialize().unwrap().to_vec());
    // forge 2: move secret of chain 1 into chain 0 when R_1 is empty name (broadcast), if present
    if let Some(i) = p.chains.iter().position(|(r, _)| r.is_empty()) {
        if i > 0 {
            let mut f = p.clone();
            let (_, ce) = f.chains.remove(i);
            f.chains[i - 1].1.extend(ce);
            let mut forged = UserSecretKey::deserialize(&ser_usk(&f)).unwrap();
            let r = cc.refresh_usk(&mut msk, &mut forged, true);
            println!("D9: forged(move broadcast secret into previous chain) refresh ok={}", r.is_ok());
        } else {
            println!("D9: broadcast chain is first; skip forge 2");
        }
    }
    // control: swap two chains -> must fail
    let mut f = p.clone();
    f.chains.swap(0, 1);
    let mut forged = UserSecretKey::deserialize(&ser_usk(&f)).unwrap();
    println!("D9: control(swap chains) refresh ok={}", cc.refresh_usk(&mut msk, &mut forged, true).is_ok());
    // strip signature
    let mut f = p.clone();
    f.sig = None;
    let mut forged = UserSecretKey::deserialize(&ser_usk(&f)).unwrap();
    println!("D9: control(strip sig) refresh ok={}", cc.refresh_usk(&mut msk, &mut forged, true).is_ok());
}

#[test]
fn c14_zero_chain_usk_hangs() {
    let cc = Covercrypt::default();
    let (mut msk, mpk) = base(&cc);
    let usk = cc.generate_user_secret_key(&mut msk, &ap("DPT::FIN")).unwrap();
    let mut p = parse_usk(&usk.serialize().unwrap());
    p.chains.clear();
    let forged = UserSecretKey::deserialize(&ser_usk(&p)).unwrap();
    let (_s, enc) = cc.encaps(&mpk, &ap("DPT::FIN")).unwrap();
    let (tx, rx) = std::sync::mpsc::channel();
    std::thread::spawn(move || {
        let cc = Covercrypt::default();
        let r = cc.decaps(&forged, &enc).map(|o| o.is_some());
        let _ = tx.send(format!("{r:?}"));
    });
    match rx.recv_timeout(std::time::Duration::from_secs(5)) {
        Ok(r) => println!("C14: zero-chain decaps returned {r}"),
        Err(_) => println!("C14: zero-chain decaps HANGS (>5s)"),
    }
}

#[test]
fn c18_recaps() {
    let cc = Covercrypt::default();
    let (mut msk, mpk) = base(&cc);
    let mut usk_hr = cc.generate_user_secret_key(&mut msk, &ap("DPT::HR")).unwrap();
    let (_s, enc) = cc.encaps(&mpk, &ap("DPT::FIN || DPT::HR")).unwrap();
    println!("C18: enc count {}", enc.count());
    let mpk2 = cc.rekey(&mut msk, &ap("DPT::FIN")).unwrap();
    let r = cc.recaps(&msk, &mpk2, &enc);
    println!("C18: recaps after rekey FIN ok={} count={:?}", r.is_ok(), r.as_ref().ok().map(|(_, e)| e.count()));
    msk.access_structure.disable_attribute(&qa("DPT", "FIN")).unwrap();
    let mpk3 = cc.update_msk(&mut msk).unwrap();
    let r = cc.recaps(&msk, &mpk3, &enc);
    println!("C18: recaps multi-target after rekey+disable FIN ok={} err={:?}", r.is_ok(), r.as_ref().err().map(|e| e.to_string()));
    // prune everything then recaps original
    let mpk4 = cc.prune_master_secret_key(&mut msk, &ap("*")).unwrap();
    let r = cc.recaps(&msk, &mpk4, &enc);
    println!("C18: recaps after prune ok={} count={:?} err={:?}", r.is_ok(), r.as_ref().ok().map(|(_, e)| e.count()), r.as_ref().err().map(|e| e.to_string()));
    if let Ok((s, e)) = r {
        cc.refresh_usk(&mut msk, &mut usk_hr, true).unwrap();
        println!("C18: HR key opens recaps: {}", cc.decaps(&usk_hr, &e).unwrap() == Some(s));
    }
}

#[test]
fn c01_cover_semantics() {
    let cc = Covercrypt::default();
    let (mut msk, mpk) = base(&cc);
    let t = |msk: &mut MasterSecretKey, u: &str, e: &str| {
        let usk = cc.generate_user_secret_key(msk, &ap(u)).unwrap();
        match cc.encaps(&mpk, &ap(e)) {
            Ok((s, enc)) => {
                let r = cc.decaps(&usk, &enc).unwrap();
                println!("cover user[{u}] enc[{e}] -> {}", if r == Some(s) { "OPEN" } else if r.is_none() { "none" } else { "WRONG" });
            }
            Err(err) => println!("cover user[{u}] enc[{e}] -> encaps err {err}"),
        }
    };
    t(&mut msk, "SEC::TOP", "SEC::LOW");
    t(&mut msk, "SEC::LOW", "SEC::TOP");
    t(&mut msk, "SEC::MID", "SEC::MID && DPT::FIN");
    t(&mut msk, "SEC::MID && DPT::HR", "SEC::LOW");
    t(&mut msk, "SEC::MID && DPT::HR", "DPT::FIN");
    t(&mut msk, "SEC::MID && DPT::HR", "*");
    t(&mut msk, "*", "SEC::TOP && DPT::RD");
    t(&mut msk, "DPT::FIN && DPT::HR", "DPT::FIN");
    t(&mut msk, "DPT::FIN && DPT::HR", "DPT::HR");
    t(&mut msk, "SEC::LOW && SEC::TOP", "SEC::MID");
    t(&mut msk, "SEC::TOP && SEC::LOW", "SEC::MID");
    t(&mut msk, "DPT::HR", "DPT::FIN && DPT::HR");
    t(&mut msk, "DPT::HR", "SEC::LOW && SEC::TOP");
}

#[test]
fn c12_pke() {
    let cc = Covercrypt::default();
    let (mut msk, mpk) = base(&cc);
    let usk = cc.generate_user_secret_key(&mut msk, &ap("DPT::FIN")).unwrap();
    let usk2 = cc.generate_user_secret_key(&mut msk, &ap("DPT::HR")).unwrap();
    let ctx = PkeAc::<{ Aes256Gcm::KEY_LENGTH }, Aes256Gcm>::encrypt(&cc, &mpk, &ap("DPT::FIN"), b"").unwrap();
    println!("C12: empty ptx ctx len {}", ctx.1.len());
    let r = PkeAc::<{ Aes256Gcm::KEY_LENGTH }, Aes256Gcm>::decrypt(&cc, &usk, &ctx).unwrap();
    println!("C12: decrypt empty -> {:?}", r.map(|v| v.len()));
    let r = PkeAc::<{ Aes256Gcm::KEY_LENGTH }, Aes256Gcm>::decrypt(&cc, &usk2, &ctx).unwrap();
    println!("C12: unauthorized -> {:?}", r.map(|v| v.len()));
    for l in [0usize, 5, 11, 12, 27, 28] {
        let short = (ctx.0.clone(), ctx.1[..l.min(ctx.1.len())].to_vec());
        let r = std::panic::catch_unwind(|| PkeAc::<{ Aes256Gcm::KEY_LENGTH }, Aes256Gcm>::decrypt(&Covercrypt::default(), &usk, &short).map(|o| o.map(|v| v.len())));
        println!("C12: truncated to {l} -> {:?}", r.map(|x| x.map_err(|e| e.to_string())).map_err(|_| "PANIC"));
    }
    // header AD None vs Some(empty)
    let (_s, h) = EncryptedHeader::generate(&cc, &mpk, &ap("DPT::FIN"), Some(b"meta"), None).unwrap();
    println!("C12: header AD None vs Some(empty): ok={}", h.decrypt(&cc, &usk, Some(b"")).is_ok());
    let hb = h.serialize().unwrap();
    println!("C12: header len {} vs {}", h.length(), hb.len());
}

#[test]
fn wire_sizes() {
    let cc = Covercrypt::default();
    let (mut msk, mpk) = base(&cc);
    let (_s, enc) = cc.encaps(&mpk, &ap("DPT::FIN || DPT::HR")).unwrap();
    let b = enc.serialize().unwrap();
    println!("wire: classic 2-target XEnc {} bytes: tag16 + n(1)+2*32 + flag1 + n1 + 2*32 = {}", b.len(), 16 + 1 + 64 + 1 + 1 + 64);
    let _ = XEnc::deserialize(&b).unwrap();
    let _ = (&mut msk, &mpk);
}
