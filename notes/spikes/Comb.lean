/-! combine spike: characterise the points produced by `combine`. -/
namespace Comb

structure Attr where
  id : Nat
  hyb : Bool
  ro : Bool
deriving DecidableEq, Repr

abbrev Dim := List Attr   -- attributes in iteration order

/-- mirror of `access_structure::combine` (ids, hybrid-OR, readonly-OR). -/
def combine : List Dim → List (List Nat × Bool × Bool)
  | [] => [([], false, false)]
  | d :: ds =>
    let partials := combine ds
    partials ++ d.flatMap (fun a => partials.map (fun (ids, h, r) => (a.id :: ids, h || a.hyb, r || a.ro)))

/-- A choice picks at most one attribute per dimension. -/
inductive Choice : List Dim → List Attr → Prop
  | nil : Choice [] []
  | skip {d ds as} : Choice ds as → Choice (d :: ds) as
  | take {d ds as a} : a ∈ d → Choice ds as → Choice (d :: ds) (a :: as)

theorem mem_combine (ds : List Dim) (p : List Nat) (h r : Bool) :
    (p, h, r) ∈ combine ds ↔
      ∃ as, Choice ds as ∧ p = as.map (·.id) ∧ h = as.any (·.hyb) ∧ r = as.any (·.ro) := by
  induction ds generalizing p h r with
  | nil =>
    simp only [combine, List.mem_singleton, Prod.mk.injEq]
    constructor
    · rintro ⟨rfl, rfl, rfl⟩; exact ⟨[], .nil, rfl, rfl, rfl⟩
    · rintro ⟨as, hc, rfl, rfl, rfl⟩; cases hc; simp
  | cons d ds ih =>
    simp only [combine, List.mem_append, List.mem_flatMap, List.mem_map]
    constructor
    · rintro (hm | ⟨a, had, ⟨ids, h', r'⟩, hm, heq⟩)
      · obtain ⟨as, hc, rfl, rfl, rfl⟩ := (ih _ _ _).1 hm
        exact ⟨as, .skip hc, rfl, rfl, rfl⟩
      · obtain ⟨as, hc, rfl, rfl, rfl⟩ := (ih _ _ _).1 hm
        simp only [Prod.mk.injEq] at heq
        obtain ⟨rfl, rfl, rfl⟩ := heq
        refine ⟨a :: as, .take had hc, rfl, ?_, ?_⟩ <;> simp [Bool.or_comm]
    · rintro ⟨as, hc, rfl, rfl, rfl⟩
      cases hc with
      | skip hc => exact Or.inl ((ih _ _ _).2 ⟨_, hc, rfl, rfl, rfl⟩)
      | take had hc =>
        rename_i as' a
        refine Or.inr ⟨a, had, (as'.map (·.id), as'.any (·.hyb), as'.any (·.ro)), (ih _ _ _).2 ⟨_, hc, rfl, rfl, rfl⟩, ?_⟩
        simp [Bool.or_comm]

end Comb
