import Spike.Look
/-! Cover spike: points of the complementary space of a clause vs the name-level cover relation. -/
namespace Cov
open Look

structure Attr where
  id : Nat
  hyb : Bool
  ro : Bool
deriving DecidableEq, Repr

structure Dim where
  ordered : Bool
  attrs : List (String × Attr)      -- hierarchy: ascending order
deriving Repr

abbrev Struct := List (String × Dim)
abbrev Clause := List (String × String)   -- (dimension, attribute) pairs

/-- ids part of `access_structure::combine`. -/
def combineIds : List Dim → List (List Nat)
  | [] => [[]]
  | d :: ds =>
    let partials := combineIds ds
    partials ++ d.attrs.flatMap (fun a => partials.map (fun ids => a.2.id :: ids))

/-- at most one attribute per dimension, in dimension order -/
inductive Choice : List Dim → List Attr → Prop
  | nil : Choice [] []
  | skip {d ds as} : Choice ds as → Choice (d :: ds) as
  | take {d ds as n a} : (n, a) ∈ d.attrs → Choice ds as → Choice (d :: ds) (a :: as)

theorem mem_combineIds (ds : List Dim) (p : List Nat) :
    p ∈ combineIds ds ↔ ∃ as, Choice ds as ∧ p = as.map (·.id) := by
  induction ds generalizing p with
  | nil =>
    simp only [combineIds, List.mem_singleton]
    constructor
    · rintro rfl; exact ⟨[], .nil, rfl⟩
    · rintro ⟨as, hc, rfl⟩; cases hc; rfl
  | cons d ds ih =>
    simp only [combineIds, List.mem_append, List.mem_flatMap, List.mem_map]
    constructor
    · rintro (hm | ⟨⟨n, a⟩, had, ids, hm, rfl⟩)
      · obtain ⟨as, hc, rfl⟩ := (ih _).1 hm
        exact ⟨as, .skip hc, rfl⟩
      · obtain ⟨as, hc, rfl⟩ := (ih _).1 hm
        exact ⟨a :: as, .take had hc, rfl⟩
    · rintro ⟨as, hc, rfl⟩
      cases hc with
      | skip hc => exact Or.inl ((ih _).2 ⟨_, hc, rfl⟩)
      | take had hc =>
        rename_i as' n a
        exact Or.inr ⟨(n, a), had, as'.map (·.id), (ih _).2 ⟨_, hc, rfl⟩, rfl⟩

theorem Choice.append {d1 d2 : List Dim} {a1 a2 : List Attr}
    (h1 : Choice d1 a1) (h2 : Choice d2 a2) : Choice (d1 ++ d2) (a1 ++ a2) := by
  induction h1 with
  | nil => simpa using h2
  | skip _ ih => exact .skip ih
  | take hm _ ih => exact .take hm ih

theorem Choice.split {d1 d2 : List Dim} {as : List Attr} (h : Choice (d1 ++ d2) as) :
    ∃ a1 a2, as = a1 ++ a2 ∧ Choice d1 a1 ∧ Choice d2 a2 := by
  induction d1 generalizing as with
  | nil => exact ⟨[], as, rfl, .nil, by simpa using h⟩
  | cons d ds ih =>
    cases h with
    | skip h =>
      obtain ⟨a1, a2, rfl, h1, h2⟩ := ih h
      exact ⟨a1, a2, rfl, .skip h1, h2⟩
    | take hm h =>
      obtain ⟨a1, a2, rfl, h1, h2⟩ := ih h
      exact ⟨_ :: a1, a2, rfl, .take hm h1, h2⟩

/-- every chosen attribute comes from one of the dimensions -/
theorem Choice.mem {ds : List Dim} {as : List Attr} (h : Choice ds as) {a : Attr} (ha : a ∈ as) :
    ∃ d ∈ ds, ∃ n, (n, a) ∈ d.attrs := by
  induction h with
  | nil => cases ha
  | skip _ ih =>
    obtain ⟨d, hd, n, hn⟩ := ih ha
    exact ⟨d, List.mem_cons_of_mem _ hd, n, hn⟩
  | take hm _ ih =>
    rcases List.mem_cons.1 ha with rfl | ha
    · exact ⟨_, List.mem_cons_self, _, hm⟩
    · obtain ⟨d, hd, n, hn⟩ := ih ha
      exact ⟨d, List.mem_cons_of_mem _ hd, n, hn⟩

/-- `Dimension::restrict` -/
def Dim.restrict (d : Dim) (n : String) : Option Dim :=
  match d.attrs.lookup n with
  | none => none
  | some a =>
    if d.ordered then some { d with attrs := d.attrs.takeWhile (fun p => p.1 != n) ++ [(n, a)] }
    else some { d with attrs := [(n, a)] }

/-- `generate_semantic_space` for a clause naming each dimension at most once (the general
    "last mention wins" version lives in the real model). -/
def semSpace (S : Struct) : Clause → Option (List (String × Dim))
  | [] => some []
  | (dn, an) :: rest =>
    match S.lookup dn with
    | none => none
    | some d =>
      match d.restrict an with
      | none => none
      | some r =>
        match semSpace S rest with
        | none => none
        | some tl => some ((dn, r) :: tl)

def restOf (S : Struct) (sem : List (String × Dim)) : Struct :=
  S.filter (fun p => !(sem.map (·.1)).contains p.1)

/-- `generate_complementary_points` -/
def complPoints (S : Struct) (cl : Clause) : Option (List (List Nat)) :=
  match semSpace S cl with
  | none => none
  | some sem =>
    let semPts := combineIds (sem.map (·.2))
    some ((combineIds ((restOf S sem).map (·.2))).flatMap fun pre => semPts.map fun suf => pre ++ suf)

theorem mem_complPoints {S : Struct} {cl : Clause} {sem : List (String × Dim)}
    (hsem : semSpace S cl = some sem) (p : List Nat) :
    (∃ pts, complPoints S cl = some pts ∧ p ∈ pts) ↔ ∃ a1 a2,
      Choice ((restOf S sem).map (·.2)) a1 ∧
      Choice (sem.map (·.2)) a2 ∧ p = a1.map (·.id) ++ a2.map (·.id) := by
  simp only [complPoints, hsem, Option.some.injEq, exists_eq_left', List.mem_flatMap, List.mem_map,
    mem_combineIds]
  constructor
  · rintro ⟨pre, ⟨a1, h1, rfl⟩, suf, ⟨a2, h2, rfl⟩, rfl⟩
    exact ⟨a1, a2, h1, h2, rfl⟩
  · rintro ⟨a1, a2, h1, h2, rfl⟩
    exact ⟨_, ⟨a1, h1, rfl⟩, _, ⟨a2, h2, rfl⟩, rfl⟩

theorem semSpace_spec {S : Struct} : ∀ {cl : Clause} {sem}, semSpace S cl = some sem →
    sem.map (·.1) = cl.map (·.1) ∧
    (∀ dn r, (dn, r) ∈ sem → ∃ y d, (dn, y) ∈ cl ∧ S.lookup dn = some d ∧ d.restrict y = some r) ∧
    (∀ dn y, (dn, y) ∈ cl → ∃ d r, S.lookup dn = some d ∧ d.restrict y = some r ∧ (dn, r) ∈ sem)
  | [], sem, h => by
    simp [semSpace] at h; subst h; simp
  | (dn, an) :: rest, sem, h => by
    simp only [semSpace] at h
    cases hd : S.lookup dn with
    | none => simp [hd] at h
    | some d =>
    simp only [hd] at h
    cases hr : d.restrict an with
    | none => simp [hr] at h
    | some r =>
    simp only [hr] at h
    cases htl : semSpace S rest with
    | none => simp [htl] at h
    | some tl =>
    simp only [htl, Option.some.injEq] at h; subst h
    obtain ⟨h1, h2, h3⟩ := semSpace_spec htl
    refine ⟨by simp [h1], ?_, ?_⟩
    · intro dn' r' hm
      rcases List.mem_cons.1 hm with hm | hm
      · cases hm; exact ⟨an, d, List.mem_cons_self, hd, hr⟩
      · obtain ⟨y, d', hy, hd', hr'⟩ := h2 _ _ hm
        exact ⟨y, d', List.mem_cons_of_mem _ hy, hd', hr'⟩
    · intro dn' y hm
      rcases List.mem_cons.1 hm with hm | hm
      · cases hm; exact ⟨d, r, hd, hr, List.mem_cons_self⟩
      · obtain ⟨d', r', hd', hr', hmem⟩ := h3 _ _ hm
        exact ⟨d', r', hd', hr', List.mem_cons_of_mem _ hmem⟩

theorem restrict_sub {d r : Dim} {y : String} (h : d.restrict y = some r) :
    ∀ q, q ∈ r.attrs → q ∈ d.attrs := by
  unfold Dim.restrict at h
  split at h
  · simp at h
  · rename_i a ha
    have hya : (y, a) ∈ d.attrs := lookup_mem ha
    split at h <;> (simp only [Option.some.injEq] at h; subst h; intro q hq; simp at hq)
    · rcases hq with hq | rfl
      · exact (List.takeWhile_sublist _).subset hq
      · exact hya
    · subst hq; exact hya

/-! ### name-level statement -/

def Struct.all (S : Struct) : List (String × String × Attr) :=
  S.flatMap fun p => p.2.attrs.map fun q => (p.1, q.1, q.2)

theorem mem_all {S : Struct} {dn : String} {d : Dim} {n : String} {a : Attr}
    (hd : (dn, d) ∈ S) (ha : (n, a) ∈ d.attrs) : (dn, n, a) ∈ S.all := by
  simp only [Struct.all, List.mem_flatMap, List.mem_map]
  exact ⟨(dn, d), hd, (n, a), ha, rfl⟩

structure WF (S : Struct) : Prop where
  dims : (S.map (·.1)).Nodup
  names : ∀ p ∈ S, (p.2.attrs.map (·.1)).Nodup
  ids : ∀ t1 ∈ S.all, ∀ t2 ∈ S.all, t1.2.2.id = t2.2.2.id → t1 = t2

/-- attributes named by an encryption clause (`generate_associated_rights` before `from_point`) -/
def encAttrs (S : Struct) : Clause → Option (List Attr)
  | [] => some []
  | (dn, an) :: rest =>
    match S.lookup dn with
    | none => none
    | some d =>
      match d.attrs.lookup an with
      | none => none
      | some a =>
        match encAttrs S rest with
        | none => none
        | some tl => some (a :: tl)

theorem encAttrs_spec {S : Struct} : ∀ {ε : Clause} {eas}, encAttrs S ε = some eas →
    (∀ dn x, (dn, x) ∈ ε → ∃ d a, S.lookup dn = some d ∧ d.attrs.lookup x = some a ∧ a ∈ eas) ∧
    (∀ a ∈ eas, ∃ dn x d, (dn, x) ∈ ε ∧ S.lookup dn = some d ∧ d.attrs.lookup x = some a)
  | [], eas, h => by simp [encAttrs] at h; subst h; simp
  | (dn, an) :: rest, eas, h => by
    simp only [encAttrs] at h
    cases hd : S.lookup dn with
    | none => simp [hd] at h
    | some d =>
    simp only [hd] at h
    cases ha : d.attrs.lookup an with
    | none => simp [ha] at h
    | some a =>
    simp only [ha] at h
    cases htl : encAttrs S rest with
    | none => simp [htl] at h
    | some tl =>
    simp only [htl, Option.some.injEq] at h; subst h
    obtain ⟨h1, h2⟩ := encAttrs_spec htl
    constructor
    · intro dn' x hm
      rcases List.mem_cons.1 hm with hm | hm
      · cases hm; exact ⟨d, a, hd, ha, List.mem_cons_self⟩
      · obtain ⟨d', a', hd', ha', hmem⟩ := h1 _ _ hm
        exact ⟨d', a', hd', ha', List.mem_cons_of_mem _ hmem⟩
    · intro a' hm
      rcases List.mem_cons.1 hm with hm | hm
      · subst hm; exact ⟨dn, an, d, List.mem_cons_self, hd, ha⟩
      · obtain ⟨dn', x, d', hx, hd', ha'⟩ := h2 _ hm
        exact ⟨dn', x, d', List.mem_cons_of_mem _ hx, hd', ha'⟩

/-- the name-level cover relation between a user clause and an encryption clause -/
def Covers (S : Struct) (cl ε : Clause) : Prop :=
  ∀ dn x, (dn, x) ∈ ε → ∀ y, (dn, y) ∈ cl →
    ∃ d r a, S.lookup dn = some d ∧ d.restrict y = some r ∧ (x, a) ∈ r.attrs

theorem clause_unique : ∀ {cl : Clause} {dn y y' : String}, (cl.map (·.1)).Nodup →
    (dn, y) ∈ cl → (dn, y') ∈ cl → y' = y
  | [], _, _, _, _, hy, _ => by cases hy
  | q :: cl, dn, y, y', hnd, hy, hy' => by
    simp only [List.map_cons, List.nodup_cons] at hnd
    rcases List.mem_cons.1 hy with h | h <;> rcases List.mem_cons.1 hy' with h' | h'
    · rw [← h] at h'; cases h'; rfl
    · subst h; exact absurd (List.mem_map.2 ⟨(dn, y'), h', rfl⟩) hnd.1
    · subst h'; exact absurd (List.mem_map.2 ⟨(dn, y), h, rfl⟩) hnd.1
    · exact clause_unique hnd.2 h h'

/-- Security half: a point of the complementary space that is (a permutation of) the point of an
    encryption clause only exists when the clause is covered. -/
theorem cover_sound {S : Struct} (hS : WF S) {cl ε : Clause} (hcl : (cl.map (·.1)).Nodup)
    {sem} (hsem : semSpace S cl = some sem) {eas} (heas : encAttrs S ε = some eas)
    {a1 a2 : List Attr} (h1 : Choice ((restOf S sem).map (·.2)) a1) (h2 : Choice (sem.map (·.2)) a2)
    (hperm : (a1.map (·.id) ++ a2.map (·.id)).Perm (eas.map (·.id))) : Covers S cl ε := by
  obtain ⟨hnames, hsem2, hsem3⟩ := semSpace_spec hsem
  obtain ⟨he1, _⟩ := encAttrs_spec heas
  intro dn x hx y hy
  obtain ⟨d, ax, hd, hax, haxm⟩ := he1 dn x hx
  have hdS : (dn, d) ∈ S := lookup_mem hd
  have hxd : (x, ax) ∈ d.attrs := lookup_mem hax
  have htx : (dn, x, ax) ∈ S.all := mem_all hdS hxd
  obtain ⟨d', r, hd', hr, hrsem⟩ := hsem3 dn y hy
  rw [hd] at hd'; cases hd'
  refine ⟨d, r, ax, hd, hr, ?_⟩
  -- the id of `ax` occurs in the point
  have hid : ax.id ∈ a1.map (·.id) ++ a2.map (·.id) :=
    hperm.mem_iff.2 (List.mem_map.2 ⟨ax, haxm, rfl⟩)
  rcases List.mem_append.1 hid with hid | hid
  · -- chosen in a dimension outside the clause: impossible, `dn` is named by the clause
    exfalso
    obtain ⟨a, ha, haid⟩ := List.mem_map.1 hid
    obtain ⟨dd, hdd, n, hn⟩ := h1.mem ha
    obtain ⟨⟨dn', dd'⟩, hmem, rfl⟩ := List.mem_map.1 hdd
    simp only [restOf, List.mem_filter, Bool.not_eq_true', List.contains_eq_mem,
      decide_eq_false_iff_not] at hmem
    have ht : (dn', n, a) ∈ S.all := mem_all hmem.1 hn
    have := hS.ids _ ht _ htx haid
    simp only [Prod.mk.injEq] at this
    obtain ⟨rfl, _, _⟩ := this
    exact hmem.2 (by rw [hnames]; exact List.mem_map.2 ⟨(dn', y), hy, rfl⟩)
  · -- chosen in a restricted dimension: it must be the restriction of `dn`
    obtain ⟨a, ha, haid⟩ := List.mem_map.1 hid
    obtain ⟨rr, hrr, n, hn⟩ := h2.mem ha
    obtain ⟨⟨dn', rr'⟩, hmem, rfl⟩ := List.mem_map.1 hrr
    obtain ⟨y', d'', hy', hd'', hr''⟩ := hsem2 _ _ hmem
    have hd''S : (dn', d'') ∈ S := lookup_mem hd''
    have ht : (dn', n, a) ∈ S.all := mem_all hd''S (restrict_sub hr'' _ hn)
    have := hS.ids _ ht _ htx haid
    simp only [Prod.mk.injEq] at this
    obtain ⟨rfl, rfl, rfl⟩ := this
    -- same dimension, and the clause names it once: y' = y
    have hyy : y' = y := clause_unique hcl hy hy'
    subst hyy
    rw [hd] at hd''; cases hd''
    rw [hr] at hr''; cases hr''
    exact hn

/-! ### completeness half -/

/-- choose, in every listed dimension, the attribute the encryption clause names there (if any) -/
def pick (ε : Clause) (L : List (String × Dim)) : List Attr :=
  L.filterMap fun p =>
    match ε.lookup p.1 with
    | none => none
    | some x => p.2.attrs.lookup x

theorem mem_pick {ε : Clause} {L : List (String × Dim)} {a : Attr} :
    a ∈ pick ε L ↔ ∃ p ∈ L, ∃ x, ε.lookup p.1 = some x ∧ p.2.attrs.lookup x = some a := by
  simp only [pick, List.mem_filterMap]
  constructor
  · rintro ⟨p, hp, h⟩
    cases hx : ε.lookup p.1 with
    | none => simp [hx] at h
    | some x => simp only [hx] at h; exact ⟨p, hp, x, hx, h⟩
  · rintro ⟨p, hp, x, hx, h⟩
    exact ⟨p, hp, by simp [hx, h]⟩

theorem pick_choice {ε : Clause} : ∀ {L : List (String × Dim)},
    (∀ p ∈ L, ∀ x, ε.lookup p.1 = some x → ∃ a, p.2.attrs.lookup x = some a) →
    Choice (L.map (·.2)) (pick ε L)
  | [], _ => .nil
  | p :: L, h => by
    have ih := pick_choice (L := L) (fun q hq => h q (List.mem_cons_of_mem _ hq))
    simp only [pick, List.filterMap_cons, List.map_cons]
    cases hx : ε.lookup p.1 with
    | none => exact .skip ih
    | some x =>
      obtain ⟨a, ha⟩ := h p List.mem_cons_self x hx
      simp only [ha]
      exact .take (lookup_mem ha) ih

theorem cover_complete {S : Struct} (hS : WF S) {cl ε : Clause} (hcl : (cl.map (·.1)).Nodup)
    (hε : (ε.map (·.1)).Nodup)
    {sem} (hsem : semSpace S cl = some sem) {eas} (heas : encAttrs S ε = some eas)
    (hcov : Covers S cl ε) :
    ∃ a1 a2, Choice ((restOf S sem).map (·.2)) a1 ∧ Choice (sem.map (·.2)) a2 ∧
      ∀ i, i ∈ a1.map (·.id) ++ a2.map (·.id) ↔ i ∈ eas.map (·.id) := by
  obtain ⟨hnames, hsem2, hsem3⟩ := semSpace_spec hsem
  obtain ⟨he1, he2⟩ := encAttrs_spec heas
  -- what the clause entry of a dimension resolves to
  have hres : ∀ dn x, ε.lookup dn = some x → ∃ d a, S.lookup dn = some d ∧ d.attrs.lookup x = some a ∧ a ∈ eas :=
    fun dn x h => he1 dn x (lookup_mem h)
  refine ⟨pick ε (restOf S sem), pick ε sem, pick_choice ?_, pick_choice ?_, ?_⟩
  · -- outside the clause: the attribute exists in the full dimension
    intro p hp x hx
    simp only [restOf, List.mem_filter] at hp
    obtain ⟨d, a, hd, ha, _⟩ := hres _ _ hx
    have : p.2 = d := by
      have := mem_lookup_of_nodup hS.dims (show (p.1, p.2) ∈ S from hp.1)
      rw [hd] at this; cases this; rfl
    exact ⟨a, this ▸ ha⟩
  · -- inside the clause: covered means the attribute survives the restriction
    intro p hp x hx
    obtain ⟨y, d, hy, hd, hr⟩ := hsem2 p.1 p.2 hp
    obtain ⟨d', r', a, hd', hr', ha⟩ := hcov p.1 x (lookup_mem hx) y hy
    rw [hd] at hd'; cases hd'
    rw [hr] at hr'; cases hr'
    exact mem_lookup_isSome ha
  · intro i
    simp only [List.mem_append, List.mem_map, mem_pick]
    constructor
    · rintro (⟨a, ⟨p, hp, x, hx, ha⟩, rfl⟩ | ⟨a, ⟨p, hp, x, hx, ha⟩, rfl⟩)
      · simp only [restOf, List.mem_filter] at hp
        obtain ⟨d, a', hd, ha', hm⟩ := hres _ _ hx
        have : p.2 = d := by
          have := mem_lookup_of_nodup hS.dims (show (p.1, p.2) ∈ S from hp.1)
          rw [hd] at this; cases this; rfl
        rw [this, ha'] at ha; cases ha
        exact ⟨a, hm, rfl⟩
      · obtain ⟨y, d, hy, hd, hr⟩ := hsem2 p.1 p.2 hp
        obtain ⟨d', a', hd', ha', hm⟩ := hres _ _ hx
        rw [hd] at hd'; cases hd'
        -- the attribute found in the restriction is the one found in the dimension
        have h1 : (x, a) ∈ d.attrs := restrict_sub hr _ (lookup_mem ha)
        have h2 := mem_lookup_of_nodup (hS.names (p.1, d) (lookup_mem hd)) h1
        rw [ha'] at h2; cases h2
        exact ⟨a, hm, rfl⟩
    · rintro ⟨a, hm, rfl⟩
      obtain ⟨dn, x, d, hx, hd, ha⟩ := he2 a hm
      have hxl : ε.lookup dn = some x := mem_lookup_of_nodup hε hx
      by_cases hin : dn ∈ sem.map (·.1)
      · right
        obtain ⟨⟨dn', r⟩, hr, rfl⟩ := List.mem_map.1 hin
        obtain ⟨y, d', hy, hd', hrr⟩ := hsem2 _ _ hr
        rw [hd] at hd'; cases hd'
        obtain ⟨d'', r', a', hd'', hr', ha'⟩ := hcov dn' x hx y hy
        rw [hd] at hd''; cases hd''
        rw [hrr] at hr'; cases hr'
        -- names are unique in the dimension, so a' = a
        have h2 := mem_lookup_of_nodup (hS.names (dn', d) (lookup_mem hd)) (restrict_sub hrr _ ha')
        rw [ha] at h2; cases h2
        refine ⟨a, ⟨(dn', r), hr, x, hxl, ?_⟩, rfl⟩
        -- names are unique in the restriction as well (it is a sub-list up to one re-append)
        obtain ⟨a'', ha''⟩ := mem_lookup_isSome ha'
        have h3 := mem_lookup_of_nodup (hS.names (dn', d) (lookup_mem hd))
          (restrict_sub hrr _ (lookup_mem ha''))
        rw [ha] at h3; cases h3
        exact ha''
      · left
        refine ⟨a, ⟨(dn, d), ?_, x, hxl, ha⟩, rfl⟩
        simp only [restOf, List.mem_filter, Bool.not_eq_true', List.contains_eq_mem,
          decide_eq_false_iff_not]
        exact ⟨lookup_mem hd, hin⟩

end Cov
