def hexVal (c : Char) : Option Nat :=
  if '0' ≤ c ∧ c ≤ '9' then some (c.toNat - '0'.toNat)
  else if 'a' ≤ c ∧ c ≤ 'f' then some (c.toNat - 'a'.toNat + 10) else none

def unhex : List Char → Option (List UInt8)
  | [] => some []
  | a :: b :: rest => do
    let x ← hexVal a; let y ← hexVal b; let r ← unhex rest
    pure (UInt8.ofNat (16 * x + y) :: r)
  | _ => none

def step (line : String) : String :=
  match line.trimAscii.toString.splitOn " " with
  | ["parse", h] =>
    match unhex h.toList with
    | none => "bad-hex"
    | some bs =>
      match String.fromUTF8? (ByteArray.mk bs.toArray) with
      | none => "bad-utf8"
      | some s => s!"ok {s.toList.length} chars, first={s.toList.head?.map (·.toNat)}"
  | _ => "bad-op"

partial def loop (h : IO.FS.Stream) (n : Nat) : IO Nat := do
  let line ← h.getLine
  if line.isEmpty then return n
  IO.println (step line)
  loop h (n + 1)

def main : IO Unit := do
  let n ← loop (← IO.getStdin) 0
  IO.eprintln s!"lines={n}"
