/-! C07 spike: the three nested hashes bind every component of an encapsulation. -/
namespace HB

abbrev Bytes := List UInt8

/-- fixed-size blocks: a list of blocks all of length `n` is determined by its concatenation. -/
theorem flatten_inj (n : Nat) (hn : 0 < n) :
    ∀ (xs ys : List Bytes), (∀ x ∈ xs, x.length = n) → (∀ y ∈ ys, y.length = n) →
      xs.flatten = ys.flatten → xs = ys
  | [], [], _, _, _ => rfl
  | [], y :: ys, _, hy, h => by
      have := hy y (List.mem_cons_self)
      have hl := congrArg List.length h
      rw [List.flatten_cons, List.flatten_nil, List.length_append, List.length_nil] at hl; omega
  | x :: xs, [], hx, _, h => by
      have := hx x (List.mem_cons_self)
      have hl := congrArg List.length h
      rw [List.flatten_cons, List.flatten_nil, List.length_append, List.length_nil] at hl; omega
  | x :: xs, y :: ys, hx, hy, h => by
      have h1 := hx x (List.mem_cons_self)
      have h2 := hy y (List.mem_cons_self)
      simp only [List.flatten_cons] at h
      have := List.append_inj h (by omega)
      rw [this.1, flatten_inj n hn xs ys (fun a ha => hx a (List.mem_cons_of_mem _ ha))
        (fun a ha => hy a (List.mem_cons_of_mem _ ha)) this.2]

section
variable (HT HU : Bytes → Bytes)            -- SHA3-256 at the two sites
variable (Jtag : Bytes → Bytes → Bytes)     -- first 16 bytes of SHA3-384(S ‖ U)
variable (hHT : Function.Injective HT) (hHU : Function.Injective HU)
variable (hJ : ∀ s u s' u', Jtag s u = Jtag s' u' → s = s' ∧ u = u')
variable (PL EL FL DL : Nat) (hPL : 0 < PL) (hEL : 0 < EL) (hFL : 0 < FL)

/-- the received parts of an encapsulation: traps, ML-KEM ciphertexts (empty when classic), masked seeds -/
structure Enc where
  tag : Bytes
  c : List Bytes
  es : List Bytes
  fs : List Bytes

def T (x : Enc) : Bytes := HT (x.c.flatten ++ x.es.flatten)
def U (x : Enc) : Bytes := HU (T HT x ++ x.fs.flatten)

def WF (x : Enc) : Prop :=
  (∀ p ∈ x.c, p.length = PL) ∧ (∀ e ∈ x.es, e.length = EL) ∧ (∀ f ∈ x.fs, f.length = FL) ∧
  (T HT x).length = DL

include hHT hHU hJ hEL hFL in
/-- If a received encapsulation `x` passes the tag check for seed `s` with the tag of an honest
    encapsulation `x0` of seed `s0`, and the Fujisaki–Okamoto check re-derives the same traps,
    then `x` is `x0`, component by component. -/
theorem binding (x x0 : Enc) (s s0 : Bytes)
    (hx : WF HT PL EL FL DL x) (hx0 : WF HT PL EL FL DL x0)
    (htag0 : x0.tag = Jtag s0 (U HT HU x0))           -- honest
    (hsame : x.tag = x0.tag)                           -- attacker kept an honest tag
    (hchk : x.tag = Jtag s (U HT HU x))                -- decaps' tag check passed
    (hfo : x.c = x0.c)                                 -- FO: traps re-derived from s (= s0) match
    : s = s0 ∧ x.c = x0.c ∧ x.es = x0.es ∧ x.fs = x0.fs := by
  have h1 : Jtag s (U HT HU x) = Jtag s0 (U HT HU x0) := by rw [← hchk, hsame, htag0]
  obtain ⟨hs, hu⟩ := hJ _ _ _ _ h1
  have h2 := hHU hu
  have hTl : (T HT x).length = (T HT x0).length := by rw [hx.2.2.2, hx0.2.2.2]
  obtain ⟨hT, hF⟩ := List.append_inj h2 hTl
  have h3 := hHT hT
  rw [hfo] at h3
  have hE := List.append_cancel_left h3
  exact ⟨hs, hfo, flatten_inj EL hEL _ _ hx.2.1 hx0.2.1 hE, flatten_inj FL hFL _ _ hx.2.2.1 hx0.2.2.1 hF⟩

end
end HB
