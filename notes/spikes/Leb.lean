/-! LEB128 spike: encode/decode round-trip and prefix-freeness, core Lean only. -/

namespace Leb

/-- unsigned LEB128 of a natural (as the `leb128` crate writes a u64). -/
def enc (n : Nat) : List UInt8 :=
  if h : n < 128 then [UInt8.ofNat n]
  else UInt8.ofNat (n % 128 + 128) :: enc (n / 128)
termination_by n
decreasing_by omega

/-- decoder: returns value and rest. Mirrors `leb128::read::unsigned` without the overflow check. -/
def dec : List UInt8 → Option (Nat × List UInt8)
  | [] => none
  | b :: rest =>
    if b.toNat < 128 then some (b.toNat, rest)
    else match dec rest with
      | none => none
      | some (v, r) => some ((b.toNat - 128) + 128 * v, r)

theorem dec_enc (n : Nat) (rest : List UInt8) : dec (enc n ++ rest) = some (n, rest) := by
  induction n using Nat.strongRecOn with
  | _ n ih =>
    unfold enc
    split
    · rename_i h
      simp [dec, UInt8.toNat_ofNat', Nat.mod_eq_of_lt (show n < 256 by omega), h]
    · rename_i h
      have hlt : n / 128 < n := by omega
      have := ih (n / 128) hlt
      simp only [List.cons_append, dec]
      have h1 : (UInt8.ofNat (n % 128 + 128)).toNat = n % 128 + 128 := by
        simp [UInt8.toNat_ofNat']; omega
      rw [h1, this]
      have h2 : ¬ (n % 128 + 128 < 128) := by omega
      simp only [h2, if_false]
      congr 2
      omega

def len (n : Nat) : Nat := if n < 128 then 1 else 1 + len (n / 128)
termination_by n
decreasing_by omega

theorem enc_length (n : Nat) : (enc n).length = len n := by
  induction n using Nat.strongRecOn with
  | _ n ih =>
    unfold enc len
    split
    · simp
    · rename_i h
      simp [ih (n / 128) (by omega)]; omega

/-- concatenation of encodings is injective (prefix-free code). -/
theorem flatMap_enc_inj : ∀ (xs ys : List Nat), xs.flatMap enc = ys.flatMap enc → xs = ys
  | [], [] , _ => rfl
  | [], y :: ys, h => by
      simp [List.flatMap_cons] at h
      have := congrArg List.length h.1
      unfold enc at this; split at this <;> simp at this
  | x :: xs, [], h => by
      simp [List.flatMap_cons] at h
      have := congrArg List.length h.1
      unfold enc at this; split at this <;> simp at this
  | x :: xs, y :: ys, h => by
      simp only [List.flatMap_cons] at h
      have hx := dec_enc x (xs.flatMap enc)
      have hy := dec_enc y (ys.flatMap enc)
      rw [h, hy] at hx
      simp at hx
      obtain ⟨rfl, hr⟩ := hx
      rw [flatMap_enc_inj xs ys hr.symm]

end Leb
