/-! refresh_coordinate_keys spike (fixed variant): spec under the contiguity invariants. -/
namespace R

abbrev Tok := Nat

/-- split the master chain at the first occurrence of `t`. -/
def spanUntil (t : Tok) : List Tok → List Tok × Option (List Tok)
  | [] => ([], none)
  | m :: ms => if m = t then ([], some ms) else
      let (pre, r) := spanUntil t ms
      (m :: pre, r)

/-- longest common prefix, as the pairwise loop of the Rust code computes it. -/
def common : List Tok → List Tok → List Tok
  | u :: us, m :: ms => if m = u then m :: common us ms else []
  | _, _ => []

/-- the (fixed) chain merge of `refresh_coordinate_keys`; `none` = right dropped. -/
def refreshChain (msk usk : List Tok) : Option (List Tok) :=
  match usk with
  | [] => none
  | first :: rest =>
    match spanUntil first msk with
    | (pre, some mrest) => some (pre ++ first :: common rest mrest)
    | (pre, none) => some pre

theorem spanUntil_notMem (t : Tok) (l : List Tok) (h : t ∉ l) : spanUntil t l = (l, none) := by
  induction l with
  | nil => rfl
  | cons m ms ih =>
    simp only [List.mem_cons, not_or] at h
    simp [spanUntil, Ne.symm h.1, ih h.2]

theorem spanUntil_append (t : Tok) (a b : List Tok) (h : t ∉ a) :
    spanUntil t (a ++ t :: b) = (a, some b) := by
  induction a with
  | nil => simp [spanUntil]
  | cons m ms ih =>
    simp only [List.mem_cons, not_or] at h
    simp [spanUntil, Ne.symm h.1, ih h.2]

theorem common_take (l : List Tok) (a b : Nat) (hnd : l.Nodup) :
    common (l.take a) (l.take b) = l.take (min a b) := by
  induction l generalizing a b with
  | nil => simp [common]
  | cons x xs ih =>
    cases a <;> cases b <;> simp [common, List.take]
    rename_i a b
    rw [ih a b (List.nodup_cons.1 hnd).2]

/-- Spec: with `log` duplicate-free (newest first), master chain = newest `k`, user chain = the `j`
    entries starting at position `i`, the refreshed chain is the newest `min k (i+j)` entries if the
    user's newest is still in the master chain, and the whole master chain otherwise. -/
theorem refreshChain_spec (log : List Tok) (hnd : log.Nodup) (k i j : Nat)
    (hk : k ≤ log.length) (hj : 0 < j) (hij : i + j ≤ log.length) :
    refreshChain (log.take k) ((log.drop i).take j) =
      some (if i < k then log.take (min k (i + j)) else log.take k) := by
  obtain ⟨j, rfl⟩ : ∃ j', j = j' + 1 := ⟨j - 1, by omega⟩
  have hi : i < log.length := by omega
  -- decompose log = a ++ t :: b with |a| = i
  have hsplit : log = log.take i ++ log[i] :: log.drop (i + 1) := by
    rw [← List.drop_eq_getElem_cons hi, List.take_append_drop]
  generalize ha : log.take i = a at hsplit
  generalize hb : log.drop (i + 1) = b at hsplit
  generalize ht : log[i] = t at hsplit
  have hal : a.length = i := by rw [← ha]; simp; omega
  subst hsplit
  have hnd' := hnd
  rw [List.nodup_append] at hnd'
  obtain ⟨hnda, hndtb, hdisj⟩ := hnd'
  have htna : t ∉ a := fun h => hdisj t h t (List.mem_cons_self) rfl
  have htnb : t ∉ b := (List.nodup_cons.1 hndtb).1
  have hdrop : ((a ++ t :: b).drop i).take (j + 1) = t :: b.take j := by
    rw [← hal]; simp
  rw [hdrop]
  have hlen : (a ++ t :: b).length = i + 1 + b.length := by simp [hal]; omega
  rw [hlen] at hk hij hi
  unfold refreshChain
  simp only
  by_cases hlt : i < k
  · -- t is within the first k entries
    have htk : (a ++ t :: b).take k = a ++ t :: b.take (k - i - 1) := by
      rw [List.take_append, hal]
      have h1 : a.take k = a := List.take_of_length_le (by omega)
      rw [h1]
      have h2 : k - i = (k - i - 1) + 1 := by omega
      rw [h2, List.take_succ_cons]; simp
    rw [htk, spanUntil_append t a _ htna]
    simp only [hlt, if_true]
    rw [common_take b j (k - i - 1) (List.nodup_cons.1 hndtb).2]
    congr 1
    rw [List.take_append, hal]
    have h1 : a.take (min k (i + (j + 1))) = a := List.take_of_length_le (by omega)
    rw [h1]
    have h2 : min k (i + (j + 1)) - i = min j (k - i - 1) + 1 := by omega
    rw [h2, List.take_succ_cons]
  · have hki : k ≤ a.length := by omega
    have htk : (a ++ t :: b).take k = a.take k := by
      rw [List.take_append_of_le_length hki]
    rw [htk, spanUntil_notMem t _ (fun h => htna (List.mem_of_mem_take h))]
    simp [hlt]

end R
