#!/bin/sh
# Build the framework from files on disk only (offline): Lean model + theorems + driver, Rust harness in both configurations.
set -e
cd "$(dirname "$0")"
export CARGO_NET_OFFLINE=true
python3 tools/gen_tables.py /repo lean/CC/Generated
(cd lean && lake build)
(cd harness && cargo build --release --offline --target-dir ../.build/cargo-c25519) &
(cd harness && cargo build --release --offline --target-dir ../.build/cargo-p256 --no-default-features --features p256) &
wait
mkdir -p .build/tmp evidence
echo setup done
