#!/bin/bash
# benign_check.sh <dir-id> [checks...]: apply a behaviour-preserving refactoring (/tmp/wt/<id>/benign.patch, stored under
# benign/<id>/), run the given quick checks (default: all 19), undo. A VIOLATION here is a false alarm of the machinery.
ID=$1; shift
WT=/tmp/wt/$ID
OUT=/verif/benign/$ID
mkdir -p $OUT
[ -f $WT/benign.patch ] && cp $WT/benign.patch $OUT/patch.diff
CHECKS="$@"; [ -z "$CHECKS" ] && CHECKS="C01 C02 C03 C04 C05 C06 C07 C08 C09 C10 C11 C12 C13 C14 C15 C16 C17 C18 C19"
cd /verif
git -C /repo apply $OUT/patch.diff || { echo "BENIGN $ID patch-does-not-apply"; exit 2; }
for c in $CHECKS; do
  ./check $c > $OUT/check_$c.out 2> $OUT/check_$c.err
  rc=$?
  v=$(grep -c "^VIOLATION" $OUT/check_$c.out)
  first=$(grep "impl-oracle\|model-disagreement\|proof-broken\|harness-broken" $OUT/check_$c.err | head -1 | cut -c1-200)
  echo "BENIGN $ID check=$c exit=$rc violations=$v :: $first"
done
git -C /repo checkout -- . && git -C /repo clean -fdq src
python3 /verif/tools/gen_tables.py /repo /verif/lean/CC/Generated > /dev/null
