#!/bin/bash
# benign_check_iso.sh <dir-id> [checks...]: like benign_check.sh, but in an isolated copy of /repo and /verif
# (under $ISO, default /tmp/sv2), so that it can run while /repo is in use. A VIOLATION here is a false alarm.
ID=$1; shift
ISO=${ISO:-/tmp/sv2}
WT=/tmp/wt/$ID
OUT=/verif/benign/$ID
mkdir -p $OUT $ISO
[ -f $WT/benign.patch ] && cp $WT/benign.patch $OUT/patch.diff
CHECKS="$@"; [ -z "$CHECKS" ] && CHECKS="C01 C02 C03 C04 C05 C06 C07 C08 C09 C10 C11 C12 C13 C14 C15 C16 C17 C18 C19"
[ -d $ISO/repo ] || git clone -q /repo $ISO/repo
git -C $ISO/repo checkout -q -- . && git -C $ISO/repo clean -fdq src
rsync -a --delete --exclude replays --exclude seeded --exclude benign --exclude .git --exclude .build --exclude evidence /verif/ $ISO/verif/
mkdir -p $ISO/verif/evidence $ISO/verif/replays
sed -i "s#path = \"/repo\"#path = \"$ISO/repo\"#" $ISO/verif/harness/Cargo.toml
git -C $ISO/repo apply $OUT/patch.diff || { echo "BENIGN $ID patch-does-not-apply"; exit 2; }
cd $ISO/verif
for c in $CHECKS; do
  VERIF_REPO=$ISO/repo ./check $c > $OUT/check_$c.out 2> $OUT/check_$c.err
  rc=$?
  v=$(grep -c "^VIOLATION" $OUT/check_$c.out)
  dg=$(grep -c "^DEGRADED" $OUT/check_$c.out)
  first=$(grep "impl-oracle\|model-disagreement\|proof-broken\|harness-broken" $OUT/check_$c.err | head -1 | cut -c1-200)
  echo "BENIGN $ID check=$c exit=$rc violations=$v degraded=$dg :: $first"
done
git -C $ISO/repo checkout -q -- . && git -C $ISO/repo clean -fdq src
