#!/usr/bin/env python3
"""gen_tables.py <repo> <outdir>: regenerate the source-derived Lean tables from /repo/src.

Tables (each extracted independently; `status.json` in <outdir> records which succeeded):
  Consts.lean   sizes and levels (`constsAvailable`), key-derivation / MAC labels (`labelsAvailable`)
  Hashing.lean  what each encapsulation / decapsulation function feeds the hashers (informative only)
  Allocs.lean   pre-allocations inside the deserialisers (`allocsAvailable`)
  Locks.lean    lock events of every API function over the instance's generator mutex (`locksAvailable`)

A table whose extraction does not recognise the current source is written as an *unavailable* stub
(`…Available := false`, empty data): the Lean theorems over it are stated under `…Available = true`,
and the check reports the lost tie for the properties that depend on it and compensates by running
their deep runtime campaign (see DESIGN.md §4.2). The extractors resolve named constants, follow
guard-returning helper methods, and do not depend on the names of local variables.
"""
import json
import os
import re
import sys


class Unavailable(Exception):
    pass


def strip_comments(t):
    t = re.sub(r"//[^\n]*", "", t)
    return re.sub(r"/\*.*?\*/", "", t, flags=re.S)


def find(pattern, text, what):
    m = re.search(pattern, text, re.S)
    if not m:
        raise Unavailable(f"cannot extract {what}")
    return m


def block_after(text, start):
    """text of the brace block whose opening brace is the first `{` at or after `start`"""
    try:
        i = text.index("{", start)
    except ValueError:
        raise Unavailable("no block found")
    depth = 0
    for j in range(i, len(text)):
        if text[j] == "{":
            depth += 1
        elif text[j] == "}":
            depth -= 1
            if depth == 0:
                return text[i:j + 1]
    raise Unavailable("unbalanced braces")


def functions(text):
    """(name, signature, body) of every fn with a body"""
    out = []
    for m in re.finditer(r"\bfn\s+(\w+)\s*(?:<[^>{}]*>)?\s*\(", text):
        depth = 0
        j = m.end() - 1
        while j < len(text):
            if text[j] == "(":
                depth += 1
            elif text[j] == ")":
                depth -= 1
                if depth == 0:
                    break
            j += 1
        k = j + 1
        bd = 0  # `;` inside an array type of the return type is not the end of a declaration
        while k < len(text) and not (bd == 0 and text[k] in "{;"):
            if text[k] in "[(":
                bd += 1
            elif text[k] in "])":
                bd -= 1
            k += 1
        if k >= len(text) or text[k] == ";":
            continue
        depth = 0
        e = k
        while e < len(text):
            if text[e] == "{":
                depth += 1
            elif text[e] == "}":
                depth -= 1
                if depth == 0:
                    break
            e += 1
        out.append((m.group(1), text[m.start():k], text[k:e + 1]))
    return out


def fn_body(text, name):
    for n, _, body in functions(text):
        if n == name:
            return body
    raise Unavailable(f"cannot find fn {name}")


def sources(repo):
    """(relative path, text without comments) of every non-test source file"""
    out = []
    root = os.path.join(repo, "src")
    for d, _, fs in sorted(os.walk(root)):
        for f in sorted(fs):
            rel = os.path.relpath(os.path.join(d, f), root)
            if not f.endswith(".rs") or f == "tests.rs" or rel.startswith("test_utils"):
                continue
            out.append((rel, strip_comments(open(os.path.join(d, f)).read())))
    return out


def files_with(srcs, pattern):
    """the files that contain `pattern` (the code is found where it lives now, not where it used to be)"""
    return [(rel, txt) for rel, txt in srcs if re.search(pattern, txt)]


# ------------------------------------------------------------------------------------------ consts

def byte_literal(expr, text):
    """bytes of a label expression: b"..", &[Nu8, ..], [Nu8], or a named constant defined in `text`"""
    e = expr.strip()
    e = re.sub(r"^&\s*", "", e)
    m = re.fullmatch(r'b"((?:[^"\\]|\\.)*)"', e)
    if m:
        return list(m.group(1).encode().decode("unicode_escape").encode("latin1"))
    m = re.fullmatch(r"\[([^\]]*)\]", e)
    if m:
        items = [x.strip() for x in m.group(1).split(",") if x.strip()]
        out = []
        for it in items:
            mm = re.fullmatch(r"(0x[0-9a-fA-F]+|\d+)(?:_?u8)?", it)
            if not mm:
                raise Unavailable(f"label element not a literal: {it}")
            out.append(int(mm.group(1), 0))
        return out
    m = re.fullmatch(r"(?:Self::|self::)?([A-Z][A-Z0-9_]*)", e)
    if m:
        c = re.search(r"\b(?:const|static)\s+" + m.group(1) + r"\s*:[^=]*=", text)
        if not c:
            raise Unavailable(f"constant {m.group(1)} not found")
        depth, j = 0, c.end()
        while j < len(text) and not (depth == 0 and text[j] == ";"):
            depth += text[j] in "[({"
            depth -= text[j] in "])}"
            j += 1
        return byte_literal(text[c.end():j], text)
    raise Unavailable(f"label is not a literal or a named constant: {expr.strip()[:60]}")


def call_args(text, start):
    """arguments of the call / macro invocation whose `(` is at `start`, split at top-level commas"""
    depth = 0
    args, cur = [], ""
    for j in range(start, len(text)):
        c = text[j]
        if c in "([{":
            depth += 1
            if depth == 1:
                continue
        elif c in ")]}":
            depth -= 1
            if depth == 0:
                args.append(cur)
                return args
        if c == "," and depth == 1:
            args.append(cur)
            cur = ""
        else:
            cur += c
    raise Unavailable("unbalanced call")


def labels_in(text, pattern, argno):
    out = []
    for m in re.finditer(pattern, text):
        args = call_args(text, m.end() - 1)
        if len(args) <= argno:
            raise Unavailable("unexpected arity in a key-derivation call")
        out.append(byte_literal(args[argno], text))
    return out


def gen_consts(repo):
    src = lambda p: strip_comments(open(os.path.join(repo, "src", p)).read())
    status = {}
    out = ["/-! GENERATED by tools/gen_tables.py from /repo/src on every check run. Do not edit. -/", "namespace CC.Generated"]
    names = ["SHARED_SECRET_LENGTH", "SIGNING_KEY_LENGTH", "SIGNATURE_LENGTH", "TAG_LENGTH", "MIN_TRACING_LEVEL"]
    kem_names = ["MlKem512", "MlKem768"]
    try:
        srcs = sources(repo)
        everything = "\n".join(t for _, t in srcs)
        consts = {}
        for name in names:
            consts[name] = int(find(r"const\s+" + name + r"\s*:\s*usize\s*=\s*(\d+)\s*;", everything, name).group(1))
        kems = re.findall(r"make_mlkem!\(\s*(\w+),\s*\w+,\s*(\d+),\s*\w+,\s*(\d+),\s*\w+,\s*(\d+)\s*\)", everything)
        if len(kems) < 2:
            raise Unavailable("cannot extract make_mlkem! sizes")
        p256 = "\n".join(t for _, t in files_with(srcs, r"\bP256\w*|p256::"))
        p256_lens = re.findall(r"fn length\(&self\) -> usize \{\s*(\d+)\s*\}", p256)[:2]
        if len(p256_lens) != 2:
            raise Unavailable("cannot extract P-256 sizes")
        out.append("def constsAvailable : Bool := true")
        for k, v in consts.items():
            out.append(f"def {k} : Nat := {v}")
        for name, ek, dk, enc in kems:
            out.append(f"def {name}_EK : Nat := {ek}")
            out.append(f"def {name}_DK : Nat := {dk}")
            out.append(f"def {name}_ENC : Nat := {enc}")
        out.append(f"def P256_POINT : Nat := {p256_lens[0]}")
        out.append(f"def P256_SCALAR : Nat := {p256_lens[1]}")
        status["consts"] = {"ok": True}
    except (Unavailable, OSError) as e:
        status["consts"] = {"ok": False, "reason": str(e)}
        out.append("def constsAvailable : Bool := false")
        for k in names:
            out.append(f"def {k} : Nat := 0")
        for name in kem_names:
            for s in ["EK", "DK", "ENC"]:
                out.append(f"def {name}_{s} : Nat := 0")
        out.append("def P256_POINT : Nat := 0")
        out.append("def P256_SCALAR : Nat := 0")
    out.append("def R25519_POINT : Nat := 32")
    out.append("def R25519_SCALAR : Nat := 32")

    def lit(bs):
        return "[" + ", ".join(str(b) for b in bs) + "]"

    try:
        srcs = sources(repo)
        everything = "\n".join(t for _, t in srcs)
        # the PKE label lives with the `PkeAc` implementation, the header labels with `EncryptedHeader`
        api = "\n".join(t for _, t in files_with(srcs, r"impl\s+PkeAc\b|PkeAc\s*<[^{;]*>\s*for\s+Covercrypt"))
        hdr = "\n".join(t for _, t in files_with(srcs, r"impl\s+EncryptedHeader\b"))
        sig = labels_in(everything, r"Kmac::v256\s*\(", 1)
        if len(sig) < 1 or any(s != sig[0] for s in sig):
            raise Unavailable("cannot extract the KMAC label")
        ae = labels_in(api + "\n" + everything, r"SymmetricKey::derive\s*\(", 1)[:max(1, len(re.findall(r"SymmetricKey::derive\s*\(", api)))]
        if len(ae) < 1 or any(s != ae[0] for s in ae):
            raise Unavailable("cannot extract the PKE key-derivation label (all uses must agree)")
        hk = labels_in(hdr + "\n" + everything, r"SymmetricKey::derive\s*\(", 1)[:max(1, len(re.findall(r"SymmetricKey::derive\s*\(", hdr)))]
        hs = labels_in(hdr + "\n" + everything, r"kdf256!\s*\(", 2)[:max(1, len(re.findall(r"kdf256!\s*\(", hdr)))]
        if len(hk) < 1 or len(hs) < 1 or any(s != hk[0] for s in hk) or any(s != hs[0] for s in hs):
            raise Unavailable("cannot extract the header labels (all uses must agree)")
        out.append("def labelsAvailable : Bool := true")
        out.append(f"def LABEL_USK_SIGNATURE : List Nat := {lit(sig[0])}")
        out.append(f"def LABEL_PKE_KEY : List Nat := {lit(ae[0])}")
        out.append(f"def LABEL_HEADER_METADATA_KEY : List Nat := {lit(hk[0])}")
        out.append(f"def LABEL_HEADER_SECRET : List Nat := {lit(hs[0])}")
        status["labels"] = {"ok": True}
    except (Unavailable, OSError) as e:
        status["labels"] = {"ok": False, "reason": str(e)}
        out.append("def labelsAvailable : Bool := false")
        for n in ["LABEL_USK_SIGNATURE", "LABEL_PKE_KEY", "LABEL_HEADER_METADATA_KEY", "LABEL_HEADER_SECRET"]:
            out.append(f"def {n} : List Nat := []")
    out.append("end CC.Generated")
    return "\n".join(out) + "\n", status


# ------------------------------------------------------------------------------------------ allocs

def gen_allocs(repo):
    """every pre-allocation and every raw length-prefixed read in the deserialisation code (functions
    named `read…`): structural, independent of variable names"""
    head = ["/-! GENERATED by tools/gen_tables.py from /repo/src on every check run. Do not edit.",
            "Pre-allocations (`with_capacity`) and raw `read_vec` calls inside the deserialisers. -/",
            "namespace CC.Generated"]
    try:
        caps, raw = [], []
        nread = 0
        for f, txt in sources(repo):
            for name, _, body in functions(txt):
                if not name.startswith("read"):
                    continue
                nread += 1
                for c in re.finditer(r"with_capacity\s*\(", body):
                    args = call_args(body, c.end() - 1)
                    arg = re.sub(r"\s+", "", ",".join(args))
                    bounded = arg.startswith("bounded_capacity(") or arg.startswith("crate::bytes::bounded_capacity(") or re.fullmatch(r"\d+", arg) is not None
                    caps.append((f, arg.replace('"', "'"), bounded))
                # a raw `read_vec` is fine only in a function that first looks at the number of remaining bytes
                guarded = re.search(r"value\s*\(\s*\)\s*\.\s*len\s*\(\s*\)", body) is not None
                for c in re.finditer(r"\bde\s*\.\s*read_vec\s*\(\s*\)", body):
                    if not guarded:
                        raw.append(f)
        if nread < 8:
            raise Unavailable("too few deserialisers found")
        out = head + ["def allocsAvailable : Bool := true", "def capacities : List (String × String × Bool) := ["]
        out.append(",\n".join(f'  ("{f}", "{a}", {"true" if b else "false"})' for f, a, b in caps))
        out.append("]")
        out.append("def rawReadVec : List String := [" + ", ".join('"' + f + '"' for f in raw) + "]")
        out.append("end CC.Generated")
        return "\n".join(out) + "\n", {"allocs": {"ok": True, "deserialisers": nread, "capacities": len(caps)}}
    except (Unavailable, OSError) as e:
        out = head + ["def allocsAvailable : Bool := false", "def capacities : List (String × String × Bool) := []",
                      "def rawReadVec : List String := []", "end CC.Generated"]
        return "\n".join(out) + "\n", {"allocs": {"ok": False, "reason": str(e)}}


# ----------------------------------------------------------------------------------------- hashing

def feeds(block):
    out = []
    for m in re.finditer(r"hasher\.update\(([^;{}]*?)\)\s*[;),]", block):
        a = m.group(1)
        a = re.sub(r"\.serialize\(\)\?", "", a)
        a = re.sub(r"[&*\s]", "", a)
        out.append(a)
    return out


EXPECTED_FEEDS = [("h_encaps", ["ck", "E"], ["T", "F"]), ("c_encaps", ["ck"], ["T", "F"]), ("h_decaps", ["ck", "E"], ["T", "F"]),
                  ("c_decaps", ["ck"], ["T", "F"]), ("full_decaps", ["ck", "E"], ["T", "F", "F"])]


def gen_hashing(repo):
    """informative only (not a proof obligation): depends on local variable names"""
    head = ["/-! GENERATED by tools/gen_tables.py from /repo/src/core/primitives.rs on every check run. Do not edit.",
            "What each function feeds the hashers, in order (informative: no theorem depends on it; the tie of the",
            "hash inputs to the code is behavioural — artefacts of the pinned release must still open). -/",
            "namespace CC.Generated"]

    def ls(xs):
        return "[" + ", ".join('"' + x.replace('"', "'") + '"' for x in xs) + "]"

    try:
        prim = open(os.path.join(repo, "src", "core/primitives.rs")).read()
        rows = []
        for fn in ["h_encaps", "c_encaps", "h_decaps", "c_decaps", "full_decaps"]:
            body = fn_body(prim, fn)
            mt = re.search(r"let\s+T\s*=\s*\{", body)
            mu = re.search(r"let\s+U\s*=\s*\{", body)
            if not mt or not mu:
                raise Unavailable(f"the T / U blocks of {fn} are not inline")
            rows.append((fn, feeds(block_after(body, mt.start())), feeds(block_after(body, mu.start()))))
        j = feeds(fn_body(prim, "J_hash"))
        h = feeds(fn_body(prim, "H_hash"))
        out = head + ["def hashingAvailable : Bool := true", "def hashFeeds : List (String × List String × List String) := ["]
        out.append(",\n".join(f'  ("{fn}", {ls(t)}, {ls(u)})' for fn, t, u in rows))
        out.append("]")
        out.append(f"def jHashFeeds : List String := {ls(j)}")
        out.append(f"def hHashFeeds : List String := {ls(h)}")
        out.append("end CC.Generated")
        as_modelled = rows == EXPECTED_FEEDS and j == ["S", "U"] and h == ["K1", "K2", "T"]
        return "\n".join(out) + "\n", {"hashing": {"ok": True, "as_modelled": as_modelled, "informative": True}}
    except (Unavailable, OSError) as e:
        out = head + ["def hashingAvailable : Bool := false", "def hashFeeds : List (String × List String × List String) := []",
                      "def jHashFeeds : List String := []", "def hHashFeeds : List String := []", "end CC.Generated"]
        return "\n".join(out) + "\n", {"hashing": {"ok": False, "reason": str(e), "informative": True}}


# ------------------------------------------------------------------------------------------- locks

CALL = re.compile(r"\b(?:self|cc)\s*\.\s*(encaps|decaps)\s*\(")


def lock_events(body, acq, helpers=()):
    """lock events of a function body; calls to local helper functions appear as `inline:<name>`"""
    helper_re = re.compile(r"\b(?:self|Self|cc)\s*(?:\.|::)\s*(" + "|".join(helpers) + r")\s*(?:::\s*<[^>]*>\s*)?\(") if helpers else None
    evs = []
    held = []  # (kind, depth)
    depth = 0
    i = 0
    n = len(body)
    stmt_start = 0
    while i < n:
        c = body[i]
        m = acq.match(body, i)
        if m:
            stmt = body[stmt_start:i]
            is_let = re.search(r"\blet\s+(mut\s+)?\w+\s*(:\s*[^=]+)?=\s*(&mut\s*\*?\s*)?$", stmt) is not None
            evs.append("acq")
            held.append(("block" if is_let else "temp", depth))
            i = m.end()
            continue
        m = CALL.match(body, i)
        if m:
            evs.append("call:" + m.group(1))
            i = m.end()
            continue
        m = helper_re.match(body, i) if helper_re else None
        if m:
            evs.append("inline:" + m.group(1))
            i = m.end()
            continue
        if c == "{":
            depth += 1
            stmt_start = i + 1
        elif c == "}":
            for g in [g for g in held if g[1] >= depth]:
                evs.append("rel")
                held.remove(g)
            depth -= 1
            stmt_start = i + 1
        elif c == ";":
            for g in [g for g in held if g[0] == "temp" and g[1] >= depth]:
                evs.append("rel")
                held.remove(g)
            stmt_start = i + 1
        i += 1
    if held:
        return None
    return evs


def strip_test_modules(t):
    """remove `#[cfg(test)] mod … { … }` blocks and `#[test] fn`s"""
    out = t
    while True:
        m = re.search(r"#\[cfg\(test\)\]\s*(?:pub\s+)?mod\s+\w+\s*\{", out)
        if not m:
            break
        try:
            blk = block_after(out, m.end() - 1)
        except Unavailable:
            break
        out = out[:m.start()] + out[m.end() - 1 + len(blk):]
    return out


GEN_SITE = re.compile(r"\b(\w*Rng\w*)\s*::\s*(from_entropy|from_seed|from_rng|seed_from_u64|from_os_rng|new)\s*\(|\bthread_local\s*!|(?:\brng\s*\(\s*\)|\brng\b|\*\s*rng\s*\)|\bguard\b|\*\s*guard\s*\))\s*\.\s*clone\s*\(")


def rng_sites(srcs):
    """every place of the library that constructs or duplicates a generator:
    (file::function, what, inside a function that *returns* an instance / generator and has no receiver)"""
    sites = []
    for rel, txt in srcs:
        t = strip_test_modules(txt)
        fns = [(n, sig, body, t.find(body)) for n, sig, body in functions(t)]
        for m in GEN_SITE.finditer(t):
            what = "thread_local" if "thread_local" in m.group(0) else ("clone" if "clone" in m.group(0) else m.group(1) + "::" + m.group(2))
            encl = None
            for n, sig, body, pos in fns:
                if pos >= 0 and pos <= m.start() < pos + len(body):
                    if encl is None or len(body) < len(encl[2]):
                        encl = (n, sig, body)
            if encl is None:
                sites.append((rel + "::<item>", what, False))
                continue
            n, sig, _ = encl
            ret = sig.split("->", 1)[1] if "->" in sig else ""
            ctor = bool(re.search(r"\b(Self|Covercrypt|\w*Rng\w*|Mutex)\b", ret)) and not re.search(r"\(\s*&?\s*(mut\s+)?self\b", sig) and what != "clone"
            sites.append((rel + "::" + n, what, ctor))
    return sites


SYNC_OBJ = re.compile(r"\b(Mutex|RwLock|Condvar|OnceLock|OnceCell|LazyLock|Lazy|Barrier|Semaphore|Atomic[A-Z]\w*|RefCell|Cell|UnsafeCell)\s*<|\bthread_local\s*!|\blazy_static\s*!|\bstatic\s+(?:mut\s+)?[A-Z_][A-Z0-9_]*\s*:")


def sync_objects(srcs):
    """every shared-state / synchronisation object declared in the library (tests excluded): (file, what)"""
    objs = []
    for rel, txt in srcs:
        t = strip_test_modules(txt)
        t = re.sub(r"//[^\n]*", "", t)
        for m in SYNC_OBJ.finditer(t):
            if m.group(1):
                # the type with its parameter, e.g. `Mutex<CsRng>`
                j = t.find(">", m.end())
                what = re.sub(r"\s+", "", t[m.start():j + 1]) if j >= 0 and j - m.end() < 80 else m.group(1)
            else:
                what = re.sub(r"\s+", " ", m.group(0)).strip()
            objs.append((rel, what))
    return objs


def gen_locks(repo):
    head = ["/-! GENERATED by tools/gen_tables.py from /repo/src/api.rs and encrypted_header.rs on every check run. Do not edit. -/",
            "namespace CC.Generated",
            "inductive LockEv where",
            "  | acq | rel | call (f : String)",
            "deriving DecidableEq, Repr"]
    try:
        srcs = sources(repo)
        api = "\n".join(t for _, t in files_with(srcs, r"impl\s+Covercrypt\b|for\s+Covercrypt\b"))
        hdr = "\n".join(t for _, t in files_with(srcs, r"impl\s+EncryptedHeader\b"))
        if api == hdr:
            raise Unavailable("the API object and the header live in the same file")
        fns = functions(api)
        # methods that hand out the guard of the generator (`rng()` and private helpers like it)
        aliases = [n for n, sig, body in fns if "MutexGuard" in sig and re.search(r"self\s*\.\s*rng\s*\.\s*lock\s*\(", body)]
        for n, sig, body in fns:  # helpers delegating to another alias
            if "MutexGuard" in sig and n not in aliases and any(re.search(r"self\s*\.\s*" + a + r"\s*\(", body) for a in aliases):
                aliases.append(n)
        alt = "|".join([r"self\s*\.\s*rng\s*\.\s*lock\s*\(\s*\)"] + [r"(?:self|cc)\s*\.\s*" + a + r"\s*\(\s*\)" for a in aliases])
        acq = re.compile(alt)
        rows = []
        names = [n for n, _, _ in fns]
        # private helpers of the API object (anything but the public entry points) are inlined where they are called
        helpers = [n for n in names if n not in aliases and n not in ("encaps", "decaps", "default") and names.count(n) == 1]
        raw = {}
        for name, sig, body in fns:
            if name == "default" or name in aliases:
                continue
            ev = lock_events(body, acq, helpers)
            if ev is None:
                raise Unavailable(f"cannot classify the lock scopes of api.rs::{name}")
            raw.setdefault(name, ev)

        def resolve(name, stack=()):
            if name in stack:
                raise Unavailable(f"recursive helper {name}")
            out = []
            for e in raw[name]:
                if e.startswith("inline:"):
                    h = e.split(":")[1]
                    out.extend(resolve(h, stack + (name,)) if h in raw else [])
                else:
                    out.append(e)
            return out

        for name, sig, body in fns:
            if name == "default" or name in aliases:
                continue
            rows.append(("api::" + name, resolve(name)))
        for name, sig, body in functions(hdr):
            if name in ("generate", "decrypt"):
                ev = lock_events(body, acq, helpers)
                if ev is None:
                    raise Unavailable(f"cannot classify the lock scopes of encrypted_header.rs::{name}")
                flat = []
                for e in ev:
                    if e.startswith("inline:"):
                        h = e.split(":")[1]
                        flat.extend(resolve(h) if h in raw else [])
                    else:
                        flat.append(e)
                rows.append(("header::" + name, flat))
        if len(rows) < 10:
            raise Unavailable("too few functions found in api.rs")

        def ev_lean(e):
            if e == "acq":
                return ".acq"
            if e == "rel":
                return ".rel"
            return '.call "' + e.split(":")[1] + '"'

        out = head + ["def locksAvailable : Bool := true", "def lockTable : List (String × List LockEv) := ["]
        out.append(",\n".join(f'  ("{n}", [{", ".join(ev_lean(e) for e in ev)}])' for n, ev in rows))
        out.append("]")
        sites = rng_sites(srcs)
        out.append("/-- every place of the library (tests excluded) that constructs or duplicates a generator: where, what, and")
        out.append("whether that place is a constructor (a function without receiver that returns an instance or a generator) -/")
        out.append("def rngSites : List (String × String × Bool) := [")
        out.append(",\n".join(f'  ("{w}", "{k}", {"true" if c else "false"})' for w, k, c in sites))
        out.append("]")
        objs = sync_objects(srcs)
        out.append("/-- every shared-state / synchronisation object the library declares (tests excluded): the scheduling model has")
        out.append("one mutex, the generator's; anything else here is outside it -/")
        out.append("def syncObjects : List (String × String) := [")
        out.append(",\n".join(f'  ("{w}", "{k}")' for w, k in objs))
        out.append("]")
        out.append("end CC.Generated")
        return "\n".join(out) + "\n", {"locks": {"ok": True, "functions": len(rows), "guard_helpers": aliases, "rng_sites": [list(x) for x in sites], "sync_objects": [list(x) for x in objs]}}
    except (Unavailable, OSError) as e:
        out = head + ["def locksAvailable : Bool := false", "def lockTable : List (String × List LockEv) := []",
                      "def rngSites : List (String × String × Bool) := []", "def syncObjects : List (String × String) := []", "end CC.Generated"]
        return "\n".join(out) + "\n", {"locks": {"ok": False, "reason": str(e)}}


def write_if_changed(path, txt):
    if not os.path.exists(path) or open(path).read() != txt:
        open(path, "w").write(txt)


def main():
    repo, outdir = sys.argv[1], sys.argv[2]
    os.makedirs(outdir, exist_ok=True)
    status = {}
    for fname, gen in [("Consts.lean", gen_consts), ("Allocs.lean", gen_allocs), ("Hashing.lean", gen_hashing), ("Locks.lean", gen_locks)]:
        try:
            txt, st = gen(repo)
        except Exception as e:  # an extractor bug must not take the other tables down
            print(f"extractor for {fname} crashed: {e!r}", file=sys.stderr)
            sys.exit(1)
        status.update(st)
        write_if_changed(os.path.join(outdir, fname), txt)
    write_if_changed(os.path.join(outdir, "status.json"), json.dumps(status, indent=1, sort_keys=True) + "\n")
    for k, v in status.items():
        if not v.get("ok"):
            print(f"table {k} unavailable: {v.get('reason')}", file=sys.stderr)


if __name__ == "__main__":
    main()
