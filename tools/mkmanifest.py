#!/usr/bin/env python3
"""Regenerate MANIFEST.json from tools/registry.py (claimed properties) and properties.jsonl."""
import json
import os
import sys

VERIF = os.path.dirname(os.path.dirname(os.path.abspath(__file__)))
sys.path.insert(0, os.path.join(VERIF, "tools"))
import registry  # noqa: E402

props = [json.loads(l) for l in open(os.path.join(VERIF, "properties.jsonl"))]
checks = []
na = []
for p in props:
    pid = p["id"]
    spec = registry.PROPS.get(pid)
    if spec is None or spec.get("unclaimed"):
        na.append({"property_id": pid, "reason": registry.NOT_CLAIMED.get(pid, "check not built yet in this session (work in progress; see DESIGN.md section 11)")})
        continue
    checks.append({
        "property_id": pid,
        "quick_cmd": f"./check {pid} --tier quick",
        "thorough_cmd": f"./check {pid} --tier thorough",
        "evidence_file": f"/verif/evidence/{pid}.json",
        "replay_cmd_template": f"./check {pid} --replay {{path}}",
        "engine": "lean-model+correspondence",
        "level_claimed": {
            "category": spec.get("level", "proof"),
            "text": spec["level_text"],
            "design_ref": spec.get("design_ref", "DESIGN.md section 8"),
        },
        "level_note": spec["level_note"],
        "technique": spec.get("technique", "machine-checked proof in Lean 4 over a hand-written model + differential correspondence check against the real code"),
    })

manifest = {
    "version": 1,
    "setup_cmd": "./setup.sh",
    "hooks": {
        "guard": "cosmian_cover_crypt_verif",
        "enable": "harness/.cargo/config.toml sets rustflags = [\"--cfg\", \"cosmian_cover_crypt_verif\"] for every build of the harness (which compiles /repo as a path dependency); the one hook is `pub mod verif_hooks` in src/lib.rs, a re-export of the internal data structures Dict / RevisionMap / RevisionVec (no behaviour added); everything else is observed through the public API and the serialised bytes",
        "baseline_off_cmd": "cd /repo && cargo test --workspace --no-fail-fast --offline",
        "source_commits": ["55887c9"],
        "add_only": True,
    },
    "engines": [
        {"name": "lean-model+correspondence", "path": "/verif/lean, /verif/harness, /verif/check",
         "serves_properties": [c["property_id"] for c in checks],
         "kind_free_text": "Lean 4 model and theorems (lake project CC), native Lean driver speaking a line protocol, Rust differential harness driving the real API in-process"},
    ],
    "checks": checks,
    "notes": "Repairs of genuine defects found while building the model are `fix:` commits in /repo (see known_findings.json, entries with status fixed, and DESIGN.md section 7). Three recorded findings (D9 / C08, D12 / C12, D15 / C07) print KNOWN-FINDING lines. Output lines other than VIOLATION: `KNOWN-FINDING: ...`, and `DEGRADED property=... table=...` when a supporting source-derived table cannot be extracted from a restructured source (the deep campaign is run instead; DESIGN.md section 4.2). setup.sh builds the Lean project and both harness configurations; every check rebuilds against /repo's working tree (VERIF_REPO overrides the path). Seeded changes (seeded/), harmless refactorings (benign/), automatic mutants (mutation/) and the scripts that replay them (tools/) document what the checks catch and what they leave alone.",
    "not_applicable": na,
}
json.dump(manifest, open(os.path.join(VERIF, "MANIFEST.json"), "w"), indent=1)
print(f"claimed {len(checks)}, not claimed {len(na)}")
