#!/usr/bin/env python3
"""mutation_sweep.py <n> <seed> [workdir]: automatic single-site mutants of /repo/src, each run through the 33
tests and — when the tests still pass — through all 19 quick checks, in an isolated copy of /repo and /verif
(nothing under /repo or /verif is touched while it runs). Results: <workdir>/results.jsonl, one line per mutant
that compiles and passes the tests: which checks report a violation, and whether with a concrete failing input.

This is a *measurement* of the machinery (which syntactic changes survive the test suite, and which of those the
checks notice), not part of any check."""
import json
import os
import random
import re
import shutil
import subprocess
import sys
import time

OPS = [
    (r" <= ", " < "), (r" < ", " <= "), (r" >= ", " > "), (r" > ", " >= "), (r" == ", " != "), (r" != ", " == "),
    (r" && ", " || "), (r" \|\| ", " && "), (r"\+ 1\b", "+ 2"), (r"- 1\b", "- 0"), (r"\.rev\(\)", ""),
    (r"push_front\(", "push_back("), (r"push_back\(", "push_front("), (r"\.front\(\)", ".back()"), (r"\.first\(\)", ".last()"),
    (r"\btrue\b", "false"), (r"\bfalse\b", "true"), (r"is_some\(\)", "is_none()"), (r"is_none\(\)", "is_some()"),
    (r"\.min\(", ".max("), (r"\.keep\((\w+), 1\)", r".keep(\1, 2)"), (r"\.take\(", ".skip("), (r"\.skip\(", ".take("),
    (r"\.any\(", ".all("), (r"\.all\(", ".any("), (r"\.filter\(\|", ".filter(|_unused| true || |"),  # last one rarely compiles
    (r"if !", "if "), (r"Hybridized", "Classic"), (r"EncryptOrDecrypt", "DecryptOnly"), (r"pop_front\(", "pop_back("),
    (r"\.is_empty\(\)", ".len() == 1"), (r"split_off\(", "split_off(1 + "), (r"contains_key\(", "contains_key(&Default::default()).then(|| ()).is_some() || self_contains_key("),
]
OPS = [o for o in OPS if "_unused" not in o[1] and "self_contains_key" not in o[1]]
PROPS = [f"C{i:02d}" for i in range(1, 20)]


def sh(cmd, cwd=None, env=None, timeout=3600):
    e = dict(os.environ)
    e.update({"CARGO_NET_OFFLINE": "true"})
    if env:
        e.update(env)
    # own process group, so that a mutant that hangs the tests can be killed with everything it started
    pr = subprocess.Popen(cmd, cwd=cwd, env=e, stdout=subprocess.PIPE, stderr=subprocess.STDOUT, text=True, start_new_session=True)
    try:
        out, _ = pr.communicate(timeout=timeout)
    except subprocess.TimeoutExpired:
        import signal
        try:
            os.killpg(pr.pid, signal.SIGKILL)
        except ProcessLookupError:
            pass
        out, _ = pr.communicate()
        return 124, (out or "") + "\nTIMEOUT (test result: hung)"
    return pr.returncode, out


def sites(repo):
    out = []
    root = os.path.join(repo, "src")
    for d, _, fs in os.walk(root):
        for f in fs:
            rel = os.path.relpath(os.path.join(d, f), root)
            if not f.endswith(".rs") or f == "tests.rs" or rel.startswith("test_utils") or rel.endswith("p256.rs") or (os.environ.get("SWEEP_LEAVES") != "1" and ("nike" in rel or "kem" in rel)):
                continue
            lines = open(os.path.join(d, f)).read().split("\n")
            in_test = False
            test_fn_depth = None  # inside a `#[test] fn`: skip until its closing brace
            depth = 0
            pending_test = False
            for i, l in enumerate(lines):
                st = l.strip()
                if st.startswith("#[cfg(test)]"):
                    in_test = True
                if st.startswith("#[test]"):
                    pending_test = True
                opens, closes = l.count("{"), l.count("}")
                if pending_test and "fn " in l and opens > 0:
                    test_fn_depth = depth
                    pending_test = False
                depth += opens - closes
                if test_fn_depth is not None:
                    if depth <= test_fn_depth:
                        test_fn_depth = None
                    continue
                if in_test or st.startswith("//") or st.startswith("#[") or "assert" in st or st.startswith("use "):
                    continue
                code = l.split("//")[0]
                for pat, rep in OPS:
                    for m in re.finditer(pat, code):
                        out.append((rel, i, m.start(), m.end(), pat, m.expand(rep) if "\\1" in rep else rep))
    return out


def main():
    n, seed = int(sys.argv[1]), int(sys.argv[2])
    work = sys.argv[3] if len(sys.argv) > 3 else "/tmp/msweep"
    os.makedirs(work, exist_ok=True)
    repo = os.path.join(work, "repo")
    verif = os.path.join(work, "verif")
    if not os.path.exists(repo):
        sh(["git", "clone", "-q", "/repo", repo])
    sh(["git", "checkout", "-q", "--", "."], cwd=repo)
    if not os.path.exists(verif):
        sh(["rsync", "-a", "--exclude", "replays", "--exclude", "seeded", "--exclude", "benign", "/verif/", verif + "/"])
        ct = os.path.join(verif, "harness/Cargo.toml")
        txt = open(ct).read().replace('path = "/repo"', f'path = "{repo}"')
        open(ct, "w").write(txt)
    rnd = random.Random(seed)
    cand = sites(repo)
    rnd.shuffle(cand)
    res_path = os.path.join(work, "results.jsonl")
    done = 0
    tried = 0
    for rel, li, a, b, pat, rep in cand:
        if done >= n:
            break
        tried += 1
        path = os.path.join(repo, "src", rel)
        orig = open(path).read()
        lines = orig.split("\n")
        old_line = lines[li]
        lines[li] = old_line[:a] + rep + old_line[b:]
        open(path, "w").write("\n".join(lines))
        t0 = time.time()
        rc, out = sh(["cargo", "test", "--offline", "--lib", "--target-dir", os.path.join(work, "target")], cwd=repo, timeout=300)
        if rc != 0:
            open(path, "w").write(orig)
            kind = "does-not-compile" if "error[" in out or "error:" in out and "test result" not in out else "killed-by-tests"
            print(f"[{tried}] {rel}:{li + 1} `{old_line.strip()[:60]}` {pat}->{rep}: {kind}", flush=True)
            continue
        killers, concrete = [], []
        for p in PROPS:
            rc, out = sh(["./check", p], cwd=verif, env={"VERIF_REPO": repo}, timeout=3600)
            v = [l for l in out.splitlines() if l.startswith("VIOLATION")]
            if rc != 0 or v:
                killers.append(p)
                if any("no-failing-input-found" not in l for l in v):
                    concrete.append(p)
        open(path, "w").write(orig)
        rec = {"file": rel, "line": li + 1, "before": old_line.strip(), "after": lines[li].strip(), "op": f"{pat} -> {rep}",
               "killed_by": killers, "concrete": concrete, "secs": round(time.time() - t0)}
        open(res_path, "a").write(json.dumps(rec) + "\n")
        done += 1
        print(f"[{tried}] {rel}:{li + 1} `{old_line.strip()[:60]}` {pat}->{rep}: passes tests; killed by {killers or 'NONE'}", flush=True)
    sh(["git", "checkout", "-q", "--", "."], cwd=repo)


if __name__ == "__main__":
    main()
