"""Per-property registry: Lean theorem modules, campaigns, classification of disagreements."""

TRUSTED_BASE = [
    "Lean 4.33.0 kernel (leanchecker re-check in the thorough tier); axioms allowed: propext, Classical.choice, Quot.sound",
    "hand-written Lean model lean/CC/Model/*.lean of the logic core of /repo/src (function by function)",
    "correspondence check: Rust harness (harness/), its independent wire reader, canonicaliser and generators; Lean driver lean/CC/Driver.lean",
    "tools/gen_tables.py (source-derived constants and lock tables regenerated from /repo on every run)",
    "cryptographic leaves idealised, not verified: group arithmetic, ML-KEM, SHA3/KMAC (injective, independent), AES-256-GCM (AEAD), CSPRNG (fresh draws), std::sync::Mutex",
]

BOTH = ["c25519", "p256"]
ONE = ["c25519"]


def hist(name, configs=ONE):
    return {"name": name, "configs": configs}


NOT_CLAIMED = {}

LEAVES = "cryptographic leaves idealised (tokens): a tag matches only for the secret and hash inputs the encapsulation was made with; CSPRNG draws are fresh"

PROPS = {
    "C01": {
        "modules": ["CC.Props.C01"], "campaigns": [hist("C01", BOTH)],
        "level_text": "Lean theorems over the executable model: points of `combine`, rights as permutation classes of points, decapsulation opens whenever one chain secret matches a component; the model is tied to the code by an exhaustive small-scope comparison of the rights of user keys / encapsulations and by comparing the real keygen+encaps+decaps verdict with the name-level cover relation of the Lean spec, in both cryptographic configurations",
        "level_note": LEAVES + "; group algebra abstracted (C01Alg); structures up to 2 (quick) / 3 (thorough) dimensions x 3 attributes in the correspondence, theorems unbounded",
    },
    "C02": {
        "modules": ["CC.Props.C02"], "campaigns": [hist("C02", BOTH)],
        "level_text": "Lean theorems: decapsulation never returns a value other than the encapsulated secret and returns none when no chain secret matches a component (foreign keys included); correspondence as C01 with the direction `not covered => None` checked on the real code against the Lean cover relation",
        "level_note": LEAVES + "; excludes 2^-128 tag collisions",
    },
    "C15": {
        "modules": ["CC.Props.C15"], "campaigns": [hist("C15")],
        "level_text": "Lean theorems: the parser model is total (well-founded recursion, slices in bounds), smart constructors and DNF preserve truth values and atoms; the parser model is compared with AccessPolicy::parse on every string over a 10-character alphabet (metacharacters, spaces, multi-byte) up to length 4 (quick) / 6 (thorough) and on random printed formulas",
        "level_note": "Unicode White_Space table written by hand; Rust str slicing semantics; parse_sound for arbitrary spacing is covered by correspondence and truth-table comparison, not yet by a theorem",
    },
}

# operations whose ok/err status or outcome is what the property talks about
BEHAVIOUR_KINDS = {"behaviour", "status", "panic"}


def classify(prop, camp, mm, cfg):
    kind = "impl-oracle" if mm["kind"] in BEHAVIOUR_KINDS else "model-disagreement"
    what = f"{mm['op']}: implementation `{mm['impl'][:160]}` vs model/spec `{mm['model'][:160]}` ({mm['kind']})"
    oracle = "model-outcome"
    tags = [mm["kind"], mm["op"]]
    if mm["op"] == "covers":
        oracle = "cover-relation"
        a, b = mm["impl"], mm["model"]
        if a == "ok 1" and b == "ok 0":
            tags.append("unauthorized-opens")
        if a == "ok 0" and b == "ok 1":
            tags.append("authorized-fails")
    return {"kind": kind, "oracle": oracle, "what": what, "tags": tags, "config": cfg,
            "lines": mm["lines"], "impl": mm["impl"], "model": mm["model"], "line_no": mm["line_no"], "case": mm["case"]}
