"""Per-property registry: Lean theorem modules, campaigns, classification of disagreements."""

TRUSTED_BASE = [
    "Lean 4.33.0 kernel (leanchecker re-check in the thorough tier); axioms allowed: propext, Classical.choice, Quot.sound",
    "hand-written Lean model lean/CC/Model/*.lean of the logic core of /repo/src (function by function)",
    "correspondence check: Rust harness (harness/), its independent wire reader, canonicaliser and generators; Lean driver lean/CC/Driver.lean",
    "tools/gen_tables.py (source-derived constants and lock tables regenerated from /repo on every run)",
    "cryptographic leaves idealised, not verified: group arithmetic, ML-KEM, SHA3/KMAC (injective, independent), AES-256-GCM (AEAD), CSPRNG (fresh draws), std::sync::Mutex",
]

BOTH = ["c25519", "p256"]
ONE = ["c25519"]


def hist(name, configs=ONE):
    return {"name": name, "configs": configs}


NOT_CLAIMED = {}

LEAVES = "cryptographic leaves idealised (tokens): a tag matches only for the secret and hash inputs the encapsulation was made with; CSPRNG draws are fresh"

PROPS = {
    "C01": {
        "modules": ["CC.Props.C01", "CC.Props.C01Alg", "CC.Props.NonVacuity"], "campaigns": [hist("C01", BOTH), hist("C01h", ONE)],
        "level_text": "Lean theorems over the executable model: points of `combine`, rights as permutation classes of points, decapsulation opens whenever one chain secret matches a component; over any field of scalars and any vector space of points the user's and the master key's ElGamal session keys equal the one of the encapsulation when the markers satisfy the tracing relation, and differ when they do not (C01Alg.session_key_agree, master_session_key_agree, wrong_markers_differ); the model is tied to the code by an exhaustive small-scope comparison of the rights of user keys / encapsulations and by comparing the real keygen+encaps+decaps verdict with the name-level cover relation of the Lean spec, in both cryptographic configurations; and, over histories (the reachable-world theorems), by random edit / update / store-load / keygen / refresh / encaps histories whose full decapsulation matrices (every key against every encapsulation, stale ones included) are compared with the model",
        "level_note": LEAVES + "; group algebra proved over an abstract field / vector space (C01Alg), not over the concrete curves; structures up to 2 (quick) / 3 (thorough) dimensions x 3 attributes in the correspondence, theorems unbounded",
    },
    "C02": {
        "modules": ["CC.Props.C02", "CC.Props.NonVacuity"], "campaigns": [hist("C02", BOTH), hist("C02h", ONE)],
        "level_text": "Lean theorems: decapsulation never returns a value other than the encapsulated secret and returns none when no chain secret matches a component (foreign keys included); correspondence as C01 with the direction `not covered => None` checked on the real code against the Lean cover relation; history campaign as C01 (a key must never open what the model says it cannot, whatever was deleted, re-added, stored and loaded in between)",
        "level_note": LEAVES + "; excludes 2^-128 tag collisions",
    },
    "C15": {
        "modules": ["CC.Props.C15", "CC.Props.C15Sound"], "campaigns": [hist("C15")],
        "level_text": "Lean theorems: the parser model is total (well-founded recursion, slices in bounds), smart constructors and DNF preserve truth values and atoms; parse_sound: every text derived by the documented grammar (inductive relation Den: parentheses first, && before ||, blanks anywhere between tokens and around the two names of an attribute, redundant parentheses) parses to a policy that evaluates, as does its DNF, to the denoted boolean function under every assignment, with the names as written (trimmed); the parser model is compared with AccessPolicy::parse on every string over a 10-character alphabet (metacharacters, spaces, multi-byte) up to length 4 (quick) / 6 (thorough) and on random printed formulas",
        "level_note": "Unicode White_Space table written by hand; Rust str slicing semantics; attribute names in the grammar of parse_sound contain no metacharacter and no colon; `*` only as the whole policy (parse_star)",
    },
}


HIST_NOTE = LEAVES + "; histories of <= 20 (quick) / 40 (thorough) operations on <= 3 dimensions x 3 attributes in the correspondence, theorems unbounded"

DS = {"name": "ds", "configs": ONE}
DS_TEXT = "; the data structures underneath (Dict, RevisionMap, RevisionVec) are also driven directly through the cfg-guarded hook `verif_hooks`, operation by operation, against the Lean definitions the theorems are about (campaign `ds`)"

def _hist_prop(pid, modules, text, note=HIST_NOTE, configs=ONE):
    # the quick tier runs the default configuration; the thorough tier both (the second one is P-256 + ML-KEM-768)
    PROPS[pid] = {"modules": modules, "campaigns": [hist(pid, BOTH)] + ([DS] if pid in ("C03", "C04", "C05") else []),
                  "level_text": text + (DS_TEXT if pid in ("C03", "C04", "C05") else ""), "level_note": note}
    if configs == ONE:
        PROPS[pid]["quick_configs"] = ONE

_hist_prop("C03", ["CC.Props.C03", "CC.Props.DictRefine", "CC.Props.NonVacuity"],
    "Lean theorems: along every history of the seven edit operations identifiers stay below a never-decreasing counter and a new attribute receives an identifier strictly greater than any ever in use (never reissued, deleted holders included); rename / disable keep identifier, hint and position; rights with different id sets differ; over every history: no operation alters an existing secret of a right (it removes the right, prepends newer secrets, or keeps the newest), a structure edit changes no secret and update_msk leaves the chain of every surviving right as it was (edits_keep_secrets, operations_never_alter_secrets), and every secret of every right involving a newly added attribute is drawn by the update that follows - nothing older can open it (new_attribute_inherits_nothing); a renamed attribute keeps its access at the level of names (renamed_attribute_keeps_access: rights of a key issued before the rename meet the right targeted after it exactly when the cover relation holds with the new names); the two-structure representation of `Dict` (hash map of positions + vector of entries, CC.Model.Dict) keeps its invariant, never indexes out of bounds, and each of its operations - insert, remove with its position shift, update_key, get, get_mut, collect, and the rebuild performed by the hierarchy arm of add_attribute - is the association-list operation the model uses (CC.Props.DictRefine). Correspondence: random edit/update/keygen/refresh/encaps histories (delete-then-add, rename chains, dimension delete/re-add) with structure dumps, key dumps and the full decaps matrix compared between the real API and the model")
_hist_prop("C04", ["CC.Props.C04", "CC.Props.NonVacuity"],
    "Lean theorems: the repaired revision iterator reaches every secret of every chain; rekey prepends a fresh token; a key with only older tokens cannot open an encapsulation for newer ones; a chain refreshed with keep starts with the master's newest secret and has the closed form of refreshChain_spec under the contiguity invariants; over every history (contiguity of user chains inside master chains proved as an invariant of reachable worlds): a key generated anywhere, then any operations, then refreshed with keep still holds every secret it held that the master key still holds, and still opens every encapsulation it opened through such a secret (keep_refresh_keeps_secrets, keep_refresh_still_opens). Correspondence: histories with partial rekeys, refresh with both flags, encapsulation under stale public keys; chain contents and decaps matrices compared")
_hist_prop("C05", ["CC.Props.C05", "CC.Props.NonVacuity"],
    "Lean theorems: prune keeps exactly the newest secret of a pruned right and leaves others untouched; every secret of a key refreshed with keep is a current master secret of that right, rights gone from the master key are dropped; without keep exactly the newest secret; a key holding only master secrets cannot open an encapsulation made under removed secrets; over every history, once no attribute carries an identifier a successful update_msk leaves no right involving it (deleted_attribute_leaves_master_key). Correspondence: rekey/prune/delete/update/refresh histories, chain contents and decaps matrices compared")
_hist_prop("C06", ["CC.Props.C06", "CC.Props.C16Hist", "CC.Props.NonVacuity"],
    "Lean theorems: rekey and prune never change the activation flag of the newest secret; the public key publishes a right only if its newest secret is activated; a deactivated right has no entry in any derived public key; encapsulation fails when a targeted right is unpublished; update_msk sets the flag from the structure; over every history: a disabled identifier stays disabled through every structure edit (no enable operation, identifiers never reissued), a successful update_msk deactivates every right containing it, no later operation re-activates one, so in any world reachable after disable + update encapsulation fails for every target set containing such a right (disabled_never_encryptable), while a successful update changes no secret of a right the structure still defines, so keys keep opening what they opened and stay refreshable (update_keeps_defined_rights with C04 / C09). Correspondence: histories with disable followed by update/rekey/prune/mpk re-derivation/serialisation round-trips, encaps ok/err under every public key compared")
_hist_prop("C09", ["CC.Props.C09", "CC.Props.NonVacuity"],
    "Lean theorems characterising, for all states and arguments, exactly when each structure edit, rekey, update_msk, key generation, encapsulation and refresh fail (iff statements: encaps_ok_iff, refresh_ok_iff); over every history an issued key stays refreshable with either flag. Correspondence: histories with 35% malformed arguments (unknown/duplicate/stale names, same-dimension clauses, rollbacks of the master key); ok/err of every call compared with the model")
_hist_prop("C10", ["CC.Props.C10"],
    "Lean theorems over models that return the state the code leaves behind on each path: a failing update_msk, rekey, key generation or refresh returns the master key (and the user key) unchanged - the in-loop error branches are unreachable once the up-front validation passed; as one statement over the world machine: whatever the state and arguments, an operation that reports an error leaves the master key as it was (failed_step_leaves_master_key). Correspondence: histories with 35% malformed arguments; serialised master and user keys dumped after every failing call and compared")
_hist_prop("C11", ["CC.Props.C11", "CC.Props.NonVacuity"],
    "Lean theorems: a right's hint is the disjunction of its attributes' hints; new secrets take the hint's flavour; rekey keeps flavours; public keys and refreshed user keys copy master secrets (flavour included); an encapsulation is hybridized iff all targeted keys are; classic secrets open nothing in a hybridized encapsulation; over every history the newest secret of a right is hybridized exactly when one of its (live) attributes was declared hybridized, and update_msk never strips a post-quantum key (flavour_follows_hints, update_never_strips). Correspondence: flavour flags of MSK/MPK/USK/XEnc dumps for random hint assignments and mixed-hint policies")
_hist_prop("C17", ["CC.Props.C17", "CC.Props.C17Alg", "CC.Props.C01Alg", "CC.Props.NonVacuity"], configs=BOTH, text=
    "Lean theorems: generated keys carry fresh, registered identifiers and the master key's tracers; identifiers of different keys differ; unknown identifiers are refused with nothing changed; refresh keeps registration; over every history all registered identifiers are made of tokens already drawn, so a key generation hands out an identifier nobody carries, registers it, and the key stays an issued key (registered, signature valid) after any further operations (new_key_id_fresh_and_stays_registered); (Mathlib, any field) the last marker solved from the others satisfies sum t_i a_i = s for every tracing level. Correspondence: keygen/refresh/round-trip/rollback histories; user counts, ids, tracer counts compared; the relation sum t_i a_i = s is evaluated by the Lean driver in Z/l on the real scalars (master key tracers and binding scalar, user key markers) of both curves")
_hist_prop("C18", ["CC.Props.C18", "CC.Props.NonVacuity"],
    "Lean theorems: full_decaps recovers exactly the rights whose newest secret is activated and one of whose secrets opens a component; recaps draws a new secret and targets the published keys of exactly those rights in the flavour they all support; it fails when nothing is recovered; an up-to-date authorised key opens the result; over every history no key whose rights are all outside the recovered ones opens it (tokens never serve two rights: no_other_key_opens_recaps). Correspondence: histories with recaps after rekeys/prunes/disables/deletions under every public key; decaps matrices of the outputs compared")

PROPS["C12"] = {
    "modules": ["CC.Props.C12"], "campaigns": [hist("C12", BOTH), hist("C12h", ONE), {"name": "golden", "configs": ONE}], "quick_configs": ONE, "tables": {"labels": "supporting"},
    "level_text": "Lean theorems over the KEM-DEM composition with an idealised AEAD: PKE and header round trips for every plaintext / metadata / authentication data, unauthorised => none, tampered or truncated or re-keyed ciphertext => error, AD mismatch => error when metadata is present (partial; the full statement is disproved by a witness: known finding D12), labels read from the source pairwise distinct; end to end over every history (with the reachable-world theorems of C01 / C02): in any world reachable from setup, a key just generated opens a ciphertext / header just made under the current public key to the exact plaintext / metadata and the very secret generation returned when its policy covers the encryption policy, and gets `not authorized` otherwise (pke_authorized_reachable, pke_unauthorized_reachable, header_authorized_reachable, header_unauthorized_reachable). Correspondence + specification oracle: every plaintext length 0..70 and around 4/8 KiB, metadata x AD matrix, truncation at every length, bit flips, splices; each line compared with the model and with what the specification demands; and inside histories (campaign C12h): ciphertexts and headers made under any published key, with absent / empty / non-empty metadata and authentication data, opened by every key after rotations, refreshes, edits and store / load, compared with the model",
    "level_note": "AES-256-GCM idealised (opens only what was sealed with the same key, nonce, AD; any alteration is detected); SymmetricKey::derive / kdf256 idealised as injective in (seed, label)",
}

PROPS["C07"] = {
    "modules": ["CC.Props.C07"], "campaigns": [hist("C07", BOTH), {"name": "golden", "configs": ONE}], "quick_configs": ONE, "tables": {"consts": "required"},
    "level_text": "Lean theorem `binding`: from injectivity of the three hashes and fixed block sizes (read from the source), a received value carrying an honest tag that passes the recomputed-tag and trap checks is the honest encapsulation component by component, with the same seed; hence any reordering / dropping / duplication / splice / byte change is rejected; the tie of the hashed inputs and their order to the code is behavioural: encapsulations and user keys serialised by the pinned release must still open with the same secret (golden corpus, run by this check), which any change of what is hashed breaks; the extracted feed order is reported in the evidence (informative). Specification oracle on the real code: every byte position x bit of four encapsulation shapes, every truncation, every structural operator, authorised and unauthorised keys: never a secret; the statement at the level of bytes is disproved (D15, known finding): noncanonical_leb_accepted / encapsulation_bytes_malleable exhibit two serialisations of one encapsulation, replayed on the implementation by the `noncanon` operator",
    "level_note": "SHA3-256/384 idealised as injective (hypotheses of the theorem, not axioms); tag forgery excluded (2^-128); AEAD idealised for the PKE / header part; the golden corpus was produced by the pinned release",
}

PROPS["C08"] = {
    "modules": ["CC.Props.C08"], "campaigns": [hist("C08", BOTH)], "quick_configs": ONE,
    "level_text": "Lean theorems about the byte stream `sign` feeds KMAC (model CC.Mac.input over the decoded wire form): among keys of the same shape (marker, name, chain and leaf lengths, flavours) the stream determines identifier, rights and secrets in their exact arrangement, so an accepted key of that shape is the issued one; other signature / identifier / stream => rejected; unverified keys are refused with nothing modified. The full statement (injectivity without the shape hypothesis) is disproved by two witnesses (known finding D9). Correspondence + specification oracle: 35 tampering operators on every version of issued keys, the real refresh_usk verdict compared with the byte-level model and with `only the issued key is accepted`",
    "level_note": "KMAC256 idealised: a tag verifies only for the exact stream it was computed on under the same key (2^-256 forgery excluded); the harness's independent wire reader; acceptance checked on copies of the master key with both refresh flags",
}

PROPS["C13"] = {
    "modules": ["CC.Props.C13", "CC.Props.C13Len", "CC.Props.C13Reach"],
    "campaigns": [hist("C13", BOTH), {"name": "golden", "configs": BOTH}],
    "level_text": "Lean theorems over the byte-level wire model: LEB128 round trip on the whole u64 range, and decode(encode x ++ rest) = (x, rest) for attributes, dimensions, access structures (V1 and V2), right keys, encapsulations (classic / hybridised), encrypted and cleartext headers (absent = empty metadata), public keys, master keys and user keys, for all well-formed values of any size; and the announced length: the formulas of every `length()` of the code (CC.Model.WireLen, computed without serialising) equal the length of the encoding for every well-formed object (CC.Props.C13Len); over every history (CC.Props.C13Reach): the master key of every world reachable from setup by any operations with any arguments, laid out on the wire with any leaf representation of the configuration's sizes (CC.Model.Embed), is a well-formed wire object and round-trips, so do the public key derived from it and every user key handed out; the wire layout determines the symbolic key, hence continuing any history from the reloaded master key yields step by step the same worlds (store_load_is_invisible; hypotheses left: counts and name lengths below 2^64). Correspondence: every object produced in random histories is serialised by the real code and decoded + re-encoded byte-exactly by the model, whose model of `length()` must give the value the real `length()` announces (and that value the number of bytes written; equality after round trip on the real side), round trips injected at random points of histories, and the golden corpus serialised by the pinned release is read and used by the current code and read by the model (a test on samples, labelled as such)",
    "level_note": "leaf (scalar / point / ML-KEM) encodings are opaque fixed-size blobs with an abstract validity predicate; Rust's String::from_utf8 is modelled by Lean's String.validateUTF8",
}
PROPS["C14"] = {
    "modules": ["CC.Props.C14"], "campaigns": [hist("C14", BOTH), {"name": "ds", "configs": ONE}], "quick_configs": ONE, "tables": {"allocs": "supporting"},
    "level_text": "Lean theorems over the wire model for every byte string: reading a count consumes input; a length-prefixed vector is read only when it fits in the remaining input; a loop `for 0..n` whose reader consumes input performs at most |input|+1 reads whatever n (up to 2^64-1) and fails when n exceeds the input; pre-allocations are bounded by the remaining input (and every with_capacity / read_vec site of the source is re-extracted on every run and checked to be the bounded form); decoded encapsulations, headers, user keys, public keys and master keys meet the preconditions of the `len() - 1` accessors and of `decaps` / `full_decaps` (at least one trap / marker / tracing point / tracer; no empty chain in a user key); the revision iterator terminates (zero chains included). Oracle on the real code in worker processes (RLIMIT_AS, watchdog, counting allocator): truncations, byte corruptions, boundary counts, random strings; accepted mutants are used; accepted => accepted by the model; the revision iterator of the real RevisionVec is driven directly (hook `verif_hooks`) on chains of unequal lengths, empty chains and no chain at all against `revisions` (campaign `ds`)",
    "level_note": "time / memory of the leaves' own decoders (curve points, ML-KEM keys) and of the allocator are outside the model; the worker-process oracle measures them with fixed linear bounds",
}

PROPS["C16"] = {
    "modules": ["CC.Props.C16", "CC.Props.C16Hist", "CC.Props.C19Conc"], "campaigns": [hist("C16", BOTH), hist("C16h", ONE)], "quick_configs": ONE, "tables": {"locks": "supporting"},
    "level_text": "PARTIAL. Lean theorems over the model with the CSPRNG idealised as a counter of fresh tokens: the seed of every encapsulation, the AEAD nonce of every PKE ciphertext and of every encrypted metadata, the markers of every user id and the secret of every rekey are draws of their own and the counter only moves forward, so values of different calls differ for any history; the metadata key differs from the returned secret; over every history: whatever any reachable world publishes lies below the generator's counter, the counter only moves forward, so the value a rekey makes the newest secret of a right differs from every value published at any earlier moment (rekey_never_republishes), and no operation whatsoever makes the master key publish again, for any right, a value that an earlier public key carried and that has since been replaced or whose right is gone (replaced_value_never_returns, CC.Props.C16Hist: the theorem behind the campaign oracle). The part a model cannot exhibit (weak or mis-seeded generator, cloned state, entropy failure) is only supported by a long run of identical calls across threads and instances whose extracted tags, traps, masked seeds, ciphertexts, nonces, ids and public values must be pairwise distinct; and a history campaign (C16h: rotations, disables, updates, prunes, re-derivations of the public key, store / load) with the oracle that a public value once replaced or withdrawn is never published again, each line also compared with the model. Across threads (CC.Props.C19Conc): with a draw modelled as a read-modify-write of the shared generator state, for any threads whose accesses follow the guard discipline and any schedule the blocks of tokens handed out never overlap and no update is lost (draws_disjoint, counter_exact), with converse witnesses for an access outside the discipline (snapshot_breaks, unlocked_breaks)",
    "level_note": "CsRng idealised: every draw is a fresh atom; hash / KDF outputs injective in their inputs; the statistical run is support, not proof",
}
PROPS["C19"] = {
    "modules": ["CC.Props.C19", "CC.Props.C19Conc"], "campaigns": [hist("C19", BOTH)], "quick_configs": ONE, "tables": {"locks": "required"},
    "level_text": "PARTIAL. The lock-acquisition structure of every public function of api.rs and of EncryptedHeader::{generate,decrypt} is re-extracted from the source on every run; Lean theorems: the table is well nested (no acquisition and no call to a locking function while the guard is held: `decide`), and for any number of threads running any sequences of well-nested calls: mutual exclusion, no deadlock (progress), preservation of the invariant, and termination of every schedule (each step consumes an event); with the generator's state in the model (CC.Props.C19Conc; a draw = load / store of the shared state, sections built from the regenerated table): for every schedule the invariant holds, a thread between load and store holds the mutex and sees the current state, the blocks of tokens handed out to all threads are consecutive and never overlap, the final state is the initial one advanced by the sum of all draws (what a serial execution gives), no deadlock, every step consumes an event; the places of the library that construct or duplicate a generator are re-extracted on every run and must all be constructors (generator_sites_are_constructors); witnesses snapshot_breaks / unlocked_breaks show what is lost without the discipline. The Rust memory model, the Mutex implementation, poisoning and OS scheduling are outside the model: a 2..16-thread stress run on one shared instance with result checks and a watchdog is support for that part; the only shared-state / synchronisation object the library declares (fields, statics, thread-locals, atomics, cells; table `syncObjects` regenerated from the source) is the generator's mutex — the one mutex of the scheduling model (generator_mutex_is_the_only_shared_state); the stress run varies the arguments of PkeAc::encrypt at every call while other threads use the other entry points, and reports a stall (no iteration completed by any thread for 60 s) as a blocked call",
    "level_note": "std::sync::Mutex idealised (mutual exclusion; guard released at end of scope: temporaries at the end of the statement, `let` guards at the end of the block); tools/gen_tables.py (a small tokenizer, fail-closed) trusted",
}

# specification oracles evaluated on the dumps of every history campaign, and the properties they speak for
DUMP_ORACLES = {
    "refreshed-key-holds-removed-secret": {"C05"},
    "refreshed-key-misses-newest-secret": {"C04"},
    "failed-call-modified-key": {"C10"},
    "registration-lost": {"C17"},
    "republished-public-value": {"C16", "C06"},
}


def oracle_applies(prop, oracle):
    return oracle not in DUMP_ORACLES or prop in DUMP_ORACLES[oracle]


# operations whose ok/err status or outcome is what the property talks about
BEHAVIOUR_KINDS = {"behaviour", "status", "panic"}


def classify(prop, camp, mm, cfg):
    kind = "impl-oracle" if mm["kind"] in BEHAVIOUR_KINDS else "model-disagreement"
    what = f"{mm['op']}: implementation `{mm['impl'][:160]}` vs model/spec `{mm['model'][:160]}` ({mm['kind']})"
    oracle = "model-outcome"
    tags = [mm["kind"], mm["op"]]
    if mm["op"] == "covers":
        oracle = "cover-relation"
        a, b = mm["impl"], mm["model"]
        if a == "ok 1" and b == "ok 0":
            tags.append("unauthorized-opens")
        if a == "ok 0" and b == "ok 1":
            tags.append("authorized-fails")
    return {"kind": kind, "oracle": oracle, "what": what, "tags": tags, "config": cfg,
            "lines": mm["lines"], "impl": mm["impl"], "model": mm["model"], "line_no": mm["line_no"], "case": mm["case"]}
