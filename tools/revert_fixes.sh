#!/bin/bash
# revert_fixes.sh [workdir]: for every `fix:` commit of /repo, revert it alone on top of HEAD in an isolated clone and
# run the check of the property it repaired (from an isolated copy of /verif): the defect must be reported again.
# Nothing under /repo or /verif is touched. Output: one line per fix.
W=${1:-/tmp/rv}
rm -rf $W; mkdir -p $W
git clone -q /repo $W/repo
rsync -a --exclude replays --exclude seeded --exclude benign /verif/ $W/verif/
sed -i "s#path = \"/repo\"#path = \"$W/repo\"#" $W/verif/harness/Cargo.toml
python3 - "$W" <<'PY'
import json, subprocess, sys, os
W = sys.argv[1]
kf = json.load(open('/verif/known_findings.json'))['entries']
fixed = [e for e in kf if e['status'] == 'fixed']
seen = set()
for e in fixed:
    key = (e['commit'], e['property'])
    if key in seen:
        continue
    seen.add(key)
    repo = os.path.join(W, 'repo')
    subprocess.run(['git', 'checkout', '-q', '--', '.'], cwd=repo)
    subprocess.run(['git', 'clean', '-fdq', 'src'], cwd=repo)
    r = subprocess.run(['git', 'revert', '-n', e['commit']], cwd=repo, capture_output=True, text=True)
    if r.returncode != 0:
        subprocess.run(['git', 'revert', '--abort'], cwd=repo, capture_output=True)
        subprocess.run(['git', 'checkout', '-q', '--', '.'], cwd=repo)
        print(f"REVERT {e['id']} {e['commit']} property={e['property']}: does not revert cleanly on HEAD (later fixes touch the same code)", flush=True)
        continue
    env = dict(os.environ, VERIF_REPO=repo, CARGO_NET_OFFLINE='true')
    p = subprocess.run(['./check', e['property']], cwd=os.path.join(W, 'verif'), env=env, capture_output=True, text=True)
    v = [l for l in p.stdout.splitlines() if l.startswith('VIOLATION')]
    conc = sum(1 for l in v if 'no-failing-input-found' not in l)
    first = next((l for l in p.stderr.splitlines() if 'impl-oracle' in l or 'broken' in l), '')[:200]
    print(f"REVERT {e['id']} {e['commit']} property={e['property']}: exit={p.returncode} violations={len(v)} concrete={conc} :: {first}", flush=True)
    subprocess.run(['git', 'reset', '-q', '--hard', 'HEAD'], cwd=repo)
PY
