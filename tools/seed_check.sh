#!/bin/bash
# seed_check.sh <Cxx> [checks...]: store the verified seeded change under seeded/<Cxx>/, apply it to /repo, run the
# given checks (default: the property's own), undo it. Prints one SEEDCHECK line per check.
ID=$1; shift
WT=/tmp/wt/$ID
OUT=/verif/seeded/$ID
mkdir -p $OUT
cp $WT/seeded.patch $OUT/patch.diff
cp $WT/tests/seeded_demo.rs $OUT/seeded_demo.rs
CHECKS="$@"; [ -z "$CHECKS" ] && CHECKS=$(echo $ID | cut -c1-3)
cd /verif
git -C /repo apply $OUT/patch.diff || { echo "SEEDCHECK $ID patch-does-not-apply-to-repo"; exit 2; }
for c in $CHECKS; do
  t0=$(date +%s)
  ./check $c > $OUT/check_$c.out 2> $OUT/check_$c.err
  rc=$?
  t1=$(date +%s)
  v=$(grep -c "^VIOLATION" $OUT/check_$c.out)
  nf=$(grep -c "no-failing-input-found" $OUT/check_$c.out)
  first=$(grep "impl-oracle\|model-disagreement\|proof-broken\|harness-broken" $OUT/check_$c.err | head -1 | cut -c1-220)
  echo "SEEDCHECK $ID check=$c exit=$rc violations=$v no_failing_input=$nf secs=$((t1-t0)) :: $first"
done
git -C /repo checkout -- . && git -C /repo clean -fdq src
python3 /verif/tools/gen_tables.py /repo /verif/lean/CC/Generated
