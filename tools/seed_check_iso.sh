#!/bin/bash
# seed_check_iso.sh <Cxx[suffix]> [checks...]: like seed_check.sh, but in an isolated copy of /repo and /verif
# (under $ISO, default /tmp/sv), so that it can run while another check or sweep is using /repo. Stores the
# verified seeded change under seeded/<id>/ and the outputs of the checks next to it.
ID=$1; shift
ISO=${ISO:-/tmp/sv}
WT=/tmp/wt/$ID
OUT=/verif/seeded/$ID
mkdir -p $OUT $ISO
cp $WT/seeded.patch $OUT/patch.diff
cp $WT/tests/seeded_demo.rs $OUT/seeded_demo.rs
CHECKS="$@"; [ -z "$CHECKS" ] && CHECKS=$(echo $ID | cut -c1-3)
[ -d $ISO/repo ] || git clone -q /repo $ISO/repo
git -C $ISO/repo checkout -q -- . && git -C $ISO/repo clean -fdq src
rsync -a --delete --exclude replays --exclude seeded --exclude benign --exclude .git --exclude .build --exclude evidence /verif/ $ISO/verif/
mkdir -p $ISO/verif/evidence $ISO/verif/replays
sed -i "s#path = \"/repo\"#path = \"$ISO/repo\"#" $ISO/verif/harness/Cargo.toml
git -C $ISO/repo apply $OUT/patch.diff || { echo "SEEDCHECK $ID patch-does-not-apply-to-repo"; exit 2; }
cd $ISO/verif
for c in $CHECKS; do
  t0=$(date +%s)
  VERIF_REPO=$ISO/repo ./check $c > $OUT/check_$c.out 2> $OUT/check_$c.err
  rc=$?
  t1=$(date +%s)
  v=$(grep -c "^VIOLATION" $OUT/check_$c.out)
  nf=$(grep -c "no-failing-input-found" $OUT/check_$c.out)
  first=$(grep "impl-oracle\|model-disagreement\|proof-broken\|harness-broken\|termination\|crash" $OUT/check_$c.err | head -1 | cut -c1-220)
  echo "SEEDCHECK $ID check=$c exit=$rc violations=$v no_failing_input=$nf secs=$((t1-t0)) :: $first"
done
git -C $ISO/repo checkout -q -- . && git -C $ISO/repo clean -fdq src
