#!/bin/bash
# seed_eval.sh <Cxx> [checks...]: confirm a seeded change produced in the scratch worktree /tmp/wt/<Cxx>
# (suite passes with it, demo fails with it and passes without), store it under seeded/<Cxx>/, then run
# the given checks (default: the property's own check) against /repo with the change applied, and undo it.
set -u
ID=$1; shift
WT=/tmp/wt/$ID
OUT=/verif/seeded/$ID
export CARGO_NET_OFFLINE=true CARGO_TARGET_DIR=$WT/target
mkdir -p $OUT
cd $WT || exit 2
[ -s seeded.patch ] || git diff -- src > seeded.patch
cp seeded.patch $OUT/patch.diff
cp tests/seeded_demo.rs $OUT/seeded_demo.rs 2>/dev/null
echo "== suite with the change"
FEAT=""
grep -q "test-utils" $WT/.demo_features 2>/dev/null && FEAT="--features test-utils"
SUITE=$(cargo test --offline --lib 2>&1 | grep -E "^test result" | head -1)
echo "$SUITE"
echo "== demo with the change"
DEMO_WITH=$(cargo test --offline $FEAT --test seeded_demo 2>&1 | grep -E "^test result" | tail -1)
echo "$DEMO_WITH"
git stash push -q -- src
echo "== demo without the change"
DEMO_WITHOUT=$(cargo test --offline $FEAT --test seeded_demo 2>&1 | grep -E "^test result" | tail -1)
echo "$DEMO_WITHOUT"
git stash pop -q
cd /verif
CHECKS="$@"
[ -z "$CHECKS" ] && CHECKS=$ID
git -C /repo apply $OUT/patch.diff || { echo "patch does not apply to /repo"; exit 2; }
RES=""
for c in $CHECKS; do
  ./check $c > /tmp/wt/check_${ID}_$c.out 2> /tmp/wt/check_${ID}_$c.err
  rc=$?
  v=$(grep -c "^VIOLATION" /tmp/wt/check_${ID}_$c.out)
  line=$(grep "^VIOLATION" /tmp/wt/check_${ID}_$c.out | head -1)
  echo "== check $c: exit=$rc violations=$v $line"
  RES="$RES $c:$rc"
done
git -C /repo checkout -- .
git -C /repo status --short | head -3
echo "SUMMARY $ID suite=[$SUITE] demo_with=[$DEMO_WITH] demo_without=[$DEMO_WITHOUT] checks=[$RES]"
