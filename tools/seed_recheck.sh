#!/bin/bash
# seed_recheck.sh <ISO dir> <id>...: run the property's own quick check against stored seeded changes (seeded/<id>/patch.diff)
# in an isolated copy of /repo and /verif; outputs next to the patch (check_<Cxx>.out/.err); one SEEDCHECK line per id.
ISO=$1; shift
mkdir -p $ISO
[ -d $ISO/repo ] || git clone -q /repo $ISO/repo
git -C $ISO/repo fetch -q origin 2>/dev/null; git -C $ISO/repo reset -q --hard origin/main 2>/dev/null || git -C $ISO/repo reset -q --hard
rsync -a --delete --exclude replays --exclude seeded --exclude benign --exclude .git --exclude .build --exclude evidence /verif/ $ISO/verif/
mkdir -p $ISO/verif/evidence $ISO/verif/replays
sed -i "s#path = \"/repo\"#path = \"$ISO/repo\"#" $ISO/verif/harness/Cargo.toml
cd $ISO/verif
for ID in "$@"; do
  OUT=/verif/seeded/$ID
  c=$(echo $ID | cut -c1-3)
  git -C $ISO/repo checkout -q -- . && git -C $ISO/repo clean -fdq src
  git -C $ISO/repo apply $OUT/patch.diff || { echo "SEEDCHECK $ID patch-does-not-apply-to-repo"; continue; }
  t0=$(date +%s)
  VERIF_REPO=$ISO/repo ./check $c > $OUT/check_$c.out 2> $OUT/check_$c.err
  rc=$?
  t1=$(date +%s)
  v=$(grep -c "^VIOLATION" $OUT/check_$c.out)
  nf=$(grep -c "no-failing-input-found" $OUT/check_$c.out)
  first=$(grep "impl-oracle\|model-disagreement\|proof-broken\|harness-broken\|termination\|crash" $OUT/check_$c.err | head -1 | cut -c1-200)
  echo "SEEDCHECK $ID check=$c exit=$rc violations=$v no_failing_input=$nf secs=$((t1-t0)) :: $first"
done
git -C $ISO/repo checkout -q -- . && git -C $ISO/repo clean -fdq src
