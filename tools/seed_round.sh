#!/bin/bash
# seed_round.sh <Cxx[suffix]>: confirm a sub-agent's change from its patch alone (seed_verify.sh), then run the property's
# own quick check against it in an isolated copy (seed_check_iso.sh, own ISO dir so several can run at once); one line each
# appended to /scratch/round.log. The isolated copy is removed afterwards.
ID=$1; shift
LOG=${ROUND_LOG:-/scratch/round.log}
/verif/tools/seed_verify.sh $ID 2>&1 | grep '^RESULT' >> $LOG
ISO=/tmp/sv-$ID /verif/tools/seed_check_iso.sh $ID "$@" 2>&1 | grep '^SEEDCHECK' >> $LOG
rm -rf /tmp/sv-$ID
