#!/bin/bash
# seed_verify.sh <Cxx>: in the scratch worktree /tmp/wt/<Cxx>, from its seeded.patch alone (no git stash: the
# stash is shared between worktrees): suite passes with the change, demo fails with it and passes without.
ID=$1
WT=/tmp/wt/$ID
export CARGO_NET_OFFLINE=true CARGO_TARGET_DIR=$WT/target
cd $WT || exit 2
git checkout -q -- src 2>/dev/null; git clean -qfd src 2>/dev/null
git apply seeded.patch || { echo "RESULT $ID patch-does-not-apply"; exit 1; }
SUITE=$(cargo test --offline --lib 2>&1 | grep -E "^test result" | head -1)
FEAT=""; grep -q "feature = \"test-utils\"" tests/seeded_demo.rs && FEAT="--features test-utils"; DEMO_WITH=$(cargo test --offline $FEAT --test seeded_demo 2>&1 | grep -E "^test result" | tail -1)
git apply -R seeded.patch
DEMO_WITHOUT=$(cargo test --offline $FEAT --test seeded_demo 2>&1 | grep -E "^test result" | tail -1)
git apply seeded.patch
echo "RESULT $ID files=[$(grep '^+++ ' seeded.patch | tr '\n' ' ')] suite=[$SUITE] with=[$DEMO_WITH] without=[$DEMO_WITHOUT]"
